#!/usr/bin/env python3-vt
"""mir2smt: symbolic execution of loop-free functions of the *generic* MIR dump of /repo
(cargo +nightly rustc -- -Zunpretty=mir) into z3 terms.

The scalar type parameter T is interpreted by a theory object (Int, Real, or fixed-width BV with
recorded no-overflow side conditions).  All paths of a function are enumerated; each result is a
(path condition, value) pair.  Anything the interpreter does not understand raises Untranslatable,
which the caller reports as *inconclusive* (never a silent skip).
"""
import os, re, z3


class Untranslatable(Exception):
    pass


class Halt(Exception):
    """a designated callee ends the path: the rest of the function is outside the obligation"""
    def __init__(self, pc, tag):
        self.pc, self.tag = pc, tag


# ------------------------------------------------------------------------------- MIR loading

class Fn:
    def __init__(self, name, text):
        self.name = name
        self.text = text
        hdr = text.split('\n', 1)[0]
        self.args = re.findall(r'(_\d+): ', hdr[:hdr.rindex(') ->')])
        self.blocks = {}
        for m in re.finditer(r'^    (bb\d+)(?: \(cleanup\))?: \{\n(.*?)^    \}', text, re.S | re.M):
            self.blocks[m.group(1)] = [l.strip() for l in m.group(2).strip().split('\n')]


STD_ENUMS = {'Option': ['None', 'Some'], 'Result': ['Ok', 'Err'], 'ControlFlow': ['Continue', 'Break']}


def load_enum_table(repo):
    """variant order of every enum declared in geo / geo-types, read from the current source"""
    import glob
    table = {}
    for f in glob.glob(os.path.join(repo, 'geo*', 'src', '**', '*.rs'), recursive=True):
        src = re.sub(r'//[^\n]*', '', open(f, errors='replace').read())
        for m in re.finditer(r'\benum (\w+)\s*(?:<[^{]*>)?\s*(?:where[^{]*)?\{', src):
            # balanced body
            i, depth = m.end(), 1
            while i < len(src) and depth:
                depth += {'{': 1, '}': -1}.get(src[i], 0)
                i += 1
            body = src[m.end():i - 1]
            # top-level variants: strip nested (), {} payloads and attributes
            flat, d = '', 0
            for ch in body:
                if ch in '({[':
                    d += 1
                elif ch in ')}]':
                    d -= 1
                elif d == 0:
                    flat += ch
            vs = [re.sub(r'#\s*|=.*', '', v).strip().split()[-1] for v in flat.split(',') if re.search(r'\w', re.sub(r'=.*', '', v))]
            table.setdefault(m.group(1), []).append(vs)
    return table


class ConstItem(Fn):
    """a promoted constant `const NAME: TYPE = { bb0: {...} }`: a body without arguments"""
    def __init__(self, name, text):
        self.name, self.text, self.args, self.blocks = name, text, [], {}
        for m in re.finditer(r'^    (bb\d+)(?: \(cleanup\))?: \{\n(.*?)^    \}', text, re.S | re.M):
            self.blocks[m.group(1)] = [l.strip() for l in m.group(2).strip().split('\n')]


class Mir:
    def promoted(self, fn_name, k):
        """the promoted constant number k of function fn_name, or None"""
        key = ('__promoted__', fn_name, k)
        if key not in self.cache:
            self.cache[key] = self._promoted(fn_name, k)
        return self.cache[key]

    def _promoted(self, fn_name, k):
        for crate, text in self.text.items():
            m = re.search(r'^const ' + re.escape(fn_name) + r'::promoted\[%d\]: [^\n]* = \{\n.*?^\}\n' % k, text, re.S | re.M)
            if m:
                return ConstItem(fn_name + '::promoted[%d]' % k, m.group(0))
        return None

    def __init__(self, paths, repo=None):
        self.enums = load_enum_table(repo) if repo else {}
        self.text = {}
        for k, p in paths.items():
            self.text[k] = open(p).read()
        self.cache = {}

    def find_all(self, crate, pattern, sig=None):
        """every function whose name matches `pattern` (and whose header matches `sig`)"""
        ms = list(re.finditer(r'^fn (' + pattern + r')\((?:[^\n]*?)\) -> [^\n]*? \{\n.*?^\}\n', self.text[crate], re.S | re.M))
        if sig is not None:
            ms = [m for m in ms if re.search(sig, m.group(0).split('\n', 1)[0])]
        return [Fn(m.group(1), m.group(0)) for m in ms]

    def find(self, crate, pattern, sig=None):
        key = (crate, pattern, sig)
        if key in self.cache:
            return self.cache[key]
        ms = list(re.finditer(r'^fn (' + pattern + r')\((?:[^\n]*?)\) -> [^\n]*? \{\n.*?^\}\n', self.text[crate], re.S | re.M))
        if sig is not None:
            ms = [m for m in ms if re.search(sig, m.group(0).split('\n', 1)[0])]
        if len(ms) != 1:
            raise Untranslatable('function pattern %r matches %d functions in %s' % (pattern, len(ms), crate))
        f = Fn(ms[0].group(1), ms[0].group(0))
        self.cache[key] = f
        return f


# ------------------------------------------------------------------------------- values

class Ref:
    """a reference to a place: get() / set(v)"""
    def __init__(self, get, setter=None):
        self.get = get
        self.set = setter


class Enum:
    def __init__(self, variant, fields=()):
        self.variant = variant
        self.fields = list(fields)

    def __repr__(self):
        return 'Enum(%s,%r)' % (self.variant, self.fields)


class Closure:
    def __init__(self, loc, fields):
        self.loc = loc
        self.fields = fields


class SliceIter:
    def __init__(self, items):
        self.items = list(items)
        self.pos = 0


class IterMutV:
    """slice::IterMut over a list (stateful: only sound on non-forking paths)"""
    def __init__(self, items):
        self.items, self.pos = items, 0


class Adaptor:
    """iterator adaptor: kind in ('map', 'flat_map', 'filter', 'skip', 'take', 'rev', 'enumerate',
    'chain', 'copied'), inner iterator, closure / count / second iterator"""
    def __init__(self, kind, inner, closure):
        self.kind, self.inner, self.closure = kind, inner, closure


class SliceView:
    """a `&mut [T]` window base[start:end] (only concrete indices: used by structural obligations)"""
    def __init__(self, base, start, end):
        self.base, self.start, self.end = base, start, end

    def items(self):
        return self.base[self.start:self.end]


class SymEnum:
    """a field-less enum value whose variant is symbolic: z3 Int `var` indexes `variants`"""
    def __init__(self, var, variants):
        self.var, self.variants = var, list(variants)


class FnItem:
    """a function item used as a value (e.g. `iter.map(CachedEnvelope::new)`)"""
    def __init__(self, path):
        self.path = path


def clone_val(v):
    """`copy` of an aggregate is a new value (Python lists would alias otherwise); references,
    opaque records and terms are shared"""
    if isinstance(v, list):
        return [clone_val(x) for x in v]
    if isinstance(v, Enum):
        return Enum(v.variant, [clone_val(x) for x in v.fields])
    return v


def deref(v):
    while isinstance(v, Ref):
        v = v.get()
    return v


def split_args(s):
    out, depth, cur = [], 0, ''
    i = 0
    while i < len(s):
        ch = s[i]
        if ch in '([{<':
            depth += 1
        elif ch in ')]}':
            depth -= 1
        elif ch == '>' and i > 0 and s[i - 1] != '-':
            depth -= 1
        if ch == ',' and depth == 0:
            out.append(cur.strip())
            cur = ''
        else:
            cur += ch
        i += 1
    if cur.strip():
        out.append(cur.strip())
    return out


# ------------------------------------------------------------------------------- theories

class IntTheory:
    """T = mathematical integers; every intermediate is recorded so that 'fits iN' can be stated"""
    name = 'Int'

    def __init__(self):
        self.intermediates = []

    def var(self, n):
        return z3.Int(n)

    def const(self, k):
        return z3.IntVal(k)

    def rec(self, v):
        self.intermediates.append(v)
        return v

    def add(self, a, b): return self.rec(a + b)
    def sub(self, a, b): return self.rec(a - b)
    def mul(self, a, b): return self.rec(a * b)
    def neg(self, a): return self.rec(-a)

    def div(self, a, b):
        raise Untranslatable('integer division is not modelled')

    def fits(self, bits):
        lo, hi = -(1 << (bits - 1)), (1 << (bits - 1)) - 1
        return z3.And([z3.And(v >= lo, v <= hi) for v in self.intermediates])


class RealTheory(IntTheory):
    """T = reals: algebraic correctness of a float formula, rounding explicitly outside the claim"""
    name = 'Real'

    def var(self, n):
        return z3.Real(n)

    def const(self, k):
        return z3.RealVal(k)

    def div(self, a, b):
        return a / b


class BVTheory:
    """T = two's-complement iN with wrap-around; no-overflow flags recorded per operation"""

    def __init__(self, bits):
        self.bits = bits
        self.name = 'BV%d' % bits
        self.noovf = []

    def var(self, n):
        return z3.BitVec(n, self.bits)

    def const(self, k):
        return z3.BitVecVal(k, self.bits)

    # no-overflow side conditions in portable SMT-LIB: the N-bit result sign-extended equals the
    # operation carried out on the sign-extended operands
    def _ok(self, wide, narrow, ext):
        self.noovf.append(wide == z3.SignExt(ext, narrow))

    def add(self, a, b):
        r = a + b
        self._ok(z3.SignExt(1, a) + z3.SignExt(1, b), r, 1)
        return r

    def sub(self, a, b):
        r = a - b
        self._ok(z3.SignExt(1, a) - z3.SignExt(1, b), r, 1)
        return r

    def mul(self, a, b):
        r = a * b
        self._ok(z3.SignExt(self.bits, a) * z3.SignExt(self.bits, b), r, self.bits)
        return r

    def neg(self, a):
        r = -a
        self._ok(-z3.SignExt(1, a), r, 1)
        return r

    def div(self, a, b):
        raise Untranslatable('bit-vector division is not modelled')


# ------------------------------------------------------------------------------- interpreter

class Interp:
    def __init__(self, mir, theory, resolver_extra=None, uf=None):
        self.mir = mir
        self.T = theory
        self.extra = resolver_extra or {}
        self.uf = uf or {}
        self.obligations = []   # (path_cond, cond, text): MIR asserts that are not trivially true
        self.calls = []         # callee names inlined or given meaning (for the evidence)
        self.fresh = 0

    # ---- places
    def parse_place(self, env, p):
        """returns (getter, setter)"""
        p = p.strip()
        # trailing index projections
        m = re.fullmatch(r'(.+)\[(_\d+|\d+ of \d+)\]', p)
        if m and self._balanced(m.group(1)):
            bg, bs = self.parse_place(env, m.group(1))
            ix = m.group(2)
            if ix.startswith('_'):
                idx = deref(env[ix])
                if not isinstance(idx, int):
                    raise Untranslatable('symbolic index ' + p)
            else:
                idx = int(ix.split()[0])

            def g(bg=bg, idx=idx):
                b = deref(bg())
                return b.base[b.start + idx] if isinstance(b, SliceView) else b[idx]

            def s_(v, bg=bg, idx=idx):
                b = deref(bg())
                if isinstance(b, SliceView):
                    b.base[b.start + idx] = v
                else:
                    b[idx] = v
            return g, s_
        if re.fullmatch(r'_\d+', p):
            def g(p=p):
                if p not in env:
                    raise Untranslatable('read of unassigned local ' + p)
                return env[p]

            def s_(v, p=p):
                env[p] = v
            return g, s_
        if p.startswith('(') and p.endswith(')') and self._balanced(p[1:-1]):
            inner = p[1:-1].strip()
            if inner.startswith('*'):
                bg, bs = self.parse_place(env, inner[1:])

                def g(bg=bg):
                    r = bg()
                    return r.get() if isinstance(r, Ref) else r

                def s_(v, bg=bg):
                    r = bg()
                    if not isinstance(r, Ref) or r.set is None:
                        raise Untranslatable('write through a non-mutable reference')
                    r.set(v)
                return g, s_
            # downcast: (place as Variant)
            m = re.fullmatch(r'(.+) as (\w+)', inner)
            if m and self._balanced(m.group(1)):
                bg, bs = self.parse_place(env, m.group(1))

                def g(bg=bg, var=m.group(2)):
                    e = deref(bg())
                    if not isinstance(e, Enum) or e.variant != var:
                        raise Untranslatable('downcast of %r to %s' % (e, var))
                    return e.fields
                return g, None
            # field: (place.N: Type)
            m = re.match(r'(.+?)\.(\d+): ', inner)
            # find the split point robustly: last ".N: " at depth 0
            depth, pos = 0, None
            for i, ch in enumerate(inner):
                if ch in '([{<':
                    depth += 1
                elif ch in ')]}':
                    depth -= 1
                elif ch == '>' and inner[i - 1] != '-':
                    depth -= 1
                elif ch == '.' and depth == 0:
                    mm = re.match(r'\.(\d+): ', inner[i:])
                    if mm:
                        pos = (i, int(mm.group(1)))
                        break
            if pos:
                base, fld = inner[:pos[0]], pos[1]
                bg, bs = self.parse_place(env, base)

                def g(bg=bg, fld=fld):
                    v = deref(bg())
                    if isinstance(v, (Enum, Closure)):
                        v = v.fields
                    return v[fld]

                def s_(v, bg=bg, fld=fld):
                    b = deref(bg())
                    if isinstance(b, Enum):
                        b = b.fields
                    b[fld] = v
                return g, s_
        raise Untranslatable('place ' + p)

    @staticmethod
    def _balanced(s):
        d = 0
        for i, ch in enumerate(s):
            if ch in '([{':
                d += 1
            elif ch in ')]}':
                d -= 1
                if d < 0:
                    return False
        return d == 0

    def operand(self, env, o):
        o = o.strip()
        m = re.fullmatch(r'const (-?\d+)_(usize|isize|u8|u32|i32|u64|i64)', o)
        if m:
            return int(m.group(1))
        m = re.fullmatch(r'const (-?[\d.]+(?:E-?\d+)?)f64', o)
        if m:
            return ('f64const', m.group(1))
        if o == 'const ()':
            return []
        if re.fullmatch(r'const ".*"', o):
            return ('str-const', o)
        m = re.fullmatch(r'const .*::promoted\[(\d+)\]', o)
        if m:
            item = self.mir.promoted(env.get('__fn__', ''), int(m.group(1))) if isinstance(env, dict) else None
            if item is not None:
                try:
                    outs = self.run(item, {}, z3.BoolVal(True), 0)
                    if len(outs) == 1:
                        return outs[0][1]
                except Untranslatable:
                    pass
            return ('promoted-constant', o)
        if o == 'const true':
            return True
        if o == 'const false':
            return False
        m = re.fullmatch(r'const Option::<[^>]*>::None', o)
        if m:
            return Enum('None')
        if o.startswith('const ZeroSized: {closure@'):
            clo = Closure(re.fullmatch(r'const ZeroSized: \{closure@([^}]*)\}', o).group(1), [])
            clo.parent = env.get('__fnobj__') if isinstance(env, dict) else None
            return clo
        if o.startswith('const '):
            raise Untranslatable('constant ' + o)
        is_copy = False
        for k in ('no_retag ', 'copy ', 'move '):
            if o.startswith(k):
                is_copy = is_copy or k == 'copy '
                o = o[len(k):]
        for k in ('copy ', 'move '):
            if o.startswith(k):
                is_copy = is_copy or k == 'copy '
                o = o[len(k):]
        m = re.fullmatch(r'const ZeroSized: \{closure@([^}]*)\}', o)
        if m:
            return Closure(m.group(1), [])
        if o and o[0] not in '_(*' and '::' in o:
            return FnItem(o)
        g, _ = self.parse_place(env, o)
        v = g()
        return clone_val(v) if is_copy else v

    def place_type(self, env, place):
        """last path segment of the declared type of a place (for discriminant numbering), or None"""
        place = place.strip()
        m = re.fullmatch(r'\((?:.*): ([^()]*?)\)', place)
        ty = m.group(1) if m else None
        if ty is None:
            m = re.fullmatch(r'\(?\*?(_\d+)\)?', place)
            fn = env.get('__fnobj__') if isinstance(env, dict) else None
            if m and fn is not None:
                mm = re.search(r'let (?:mut )?%s: ([^;\n]*);' % m.group(1), fn.text) or re.search(r'[(, ]%s: ([^,)\n]*(?:<[^\n]*?>)?)[,)]' % m.group(1), fn.text.split('\n', 1)[0])
                ty = mm.group(1) if mm else None
        if ty is None:
            return None
        ty = re.sub(r'<.*', '', ty.strip().lstrip('&').replace('mut ', '').strip())
        return ty.split('::')[-1]

    def variant_index(self, variant, ty, legacy):
        if variant in ('Less', 'Equal', 'Greater') and ty in (None, 'Ordering'):
            return {'Less': 255, 'Equal': 0, 'Greater': 1}[variant]     # repr(i8): -1, 0, 1
        cands = []
        tables = dict((k, [v]) for k, v in STD_ENUMS.items())
        for k, v in self.mir.enums.items():
            tables.setdefault(k, []).extend(v)
        if ty in tables:
            cands = [vs.index(variant) for vs in tables[ty] if variant in vs]
        if not cands:
            cands = [vs.index(variant) for vss in tables.values() for vs in vss if variant in vs]
        if cands and all(c == cands[0] for c in cands):
            return cands[0]
        if not self.mir.enums and variant in legacy:
            return legacy[variant]
        raise Untranslatable('cannot number variant %s of %s' % (variant, ty))

    def cmp(self, op, a, b):
        a, b = deref(a), deref(b)
        if isinstance(a, tuple) and a[0] == 'f64const':
            a = z3.RealVal(a[1])
        if isinstance(b, tuple) and b[0] == 'f64const':
            b = z3.RealVal(b[1])
        return {'Lt': lambda: a < b, 'Le': lambda: a <= b, 'Gt': lambda: a > b, 'Ge': lambda: a >= b,
                'Eq': lambda: a == b, 'Ne': lambda: a != b}[op]()

    def rvalue(self, env, rv):
        rv = rv.strip()
        m = re.fullmatch(r'(Lt|Le|Gt|Ge|Eq|Ne)\((.+)\)', rv)
        if m:
            a, b = [self.operand(env, x) for x in split_args(m.group(2))]
            return self.cmp(m.group(1), a, b)
        m = re.fullmatch(r'discriminant\((.+)\)', rv)
        if m:
            e = deref(self.parse_place(env, m.group(1))[0]())
            if isinstance(e, SymEnum):
                return ('discr-sym', e, self.place_type(env, m.group(1)))
            if not isinstance(e, Enum):
                raise Untranslatable('discriminant of non-enum')
            return ('discr', e.variant, self.place_type(env, m.group(1)))
        m = re.fullmatch(r'(Add|Sub|Mul)WithOverflow\((.+)\)', rv) or re.fullmatch(r'(Add|Sub|Mul|Rem|Div)\((.+)\)', rv)
        if m:
            a, b = [self.operand(env, x) for x in split_args(m.group(2))]
            if not (isinstance(a, int) and isinstance(b, int) and not isinstance(a, bool)):
                raise Untranslatable('machine arithmetic on symbolic operands: ' + rv[:60])
            if m.group(1) in ('Rem', 'Div') and b == 0:
                raise Untranslatable('division by a concrete zero')
            r = {'Add': a + b, 'Sub': a - b, 'Mul': a * b, 'Rem': a % b if b else 0, 'Div': a // b if b else 0}[m.group(1)]
            if 'WithOverflow' in rv.split('(')[0]:
                mt = re.search(r'_(usize|isize|u8|u32|i32|u64|i64)\b', rv)
                ty = mt.group(1) if mt else 'usize'
                bits = {'usize': 64, 'isize': 64, 'u64': 64, 'i64': 64, 'u32': 32, 'i32': 32, 'u8': 8}[ty]
                lo, hi = (-(2 ** (bits - 1)), 2 ** (bits - 1)) if ty[0] == 'i' else (0, 2 ** bits)
                return [r, not (lo <= r < hi)]           # concrete indices / counters
            return r
        if re.fullmatch(r'[A-Z]\w*', rv):
            return Enum(rv)                               # variant of an enum in scope (`use Ordering::*`)
        m = re.fullmatch(r'((?:copy|move) .+?) as .+ \(PointerCoercion\(Unsize, \w+\)\)', rv)
        if m:
            return self.operand(env, m.group(1))           # array / Vec reference to slice reference: same list
        m = re.fullmatch(r'PtrMetadata\((.+)\)', rv)
        if m:
            v = deref(self.operand(env, m.group(1)))
            if isinstance(v, SliceView):
                return v.end - v.start
            if isinstance(v, list):
                return len(v)
            raise Untranslatable('PtrMetadata of an unmodelled value')
        m = re.fullmatch(r'Not\((.+)\)', rv)
        if m:
            v = self.operand(env, m.group(1))
            return (not v) if isinstance(v, bool) else z3.Not(v)
        if rv.startswith('[') and rv.endswith(']'):
            return [self.operand(env, x) for x in split_args(rv[1:-1])]
        if rv.startswith('(') and rv.endswith(')') and ',' in rv and not rv.startswith('(*') and ': ' not in rv.split(',')[0]:
            return [self.operand(env, x) for x in split_args(rv[1:-1])]
        m = re.fullmatch(r'\{closure@([^}]*)\}(?: \{ (.*) \})?', rv)
        if m:
            ops = [x.split(':', 1)[1].strip() for x in split_args(m.group(2))] if m.group(2) else []
            # rustc's MIR printer zips the operands with the names of the captured *variables*; with
            # precise (per-field) captures there are more operands than names and the tail is not
            # printed.  The missing operands are the consecutively numbered temporaries that follow.
            need = self.closure_capture_count(m.group(1))
            while ops and len(ops) < need:
                mm = re.fullmatch(r'(move|copy) _(\d+)', ops[-1])
                nxt = '_%d' % (int(mm.group(2)) + 1) if mm else None
                if nxt is None or nxt not in env:
                    raise Untranslatable('closure aggregate printed with fewer operands than captures')
                ops.append('move ' + nxt)
            fields = [self.operand(env, x) for x in ops]
            clo = Closure(m.group(1), fields)
            clo.parent = env.get('__fnobj__') if isinstance(env, dict) else None
            return clo
        m = re.fullmatch(r'&raw (?:const|mut) (?:\(fake\) )?(.+)', rv)
        if m:
            g, s_ = self.parse_place(env, m.group(1))    # only used for PtrMetadata (bounds checks)
            return Ref(g, None)
        m = re.fullmatch(r'&(mut )?(.+)', rv)
        if m:
            g, s_ = self.parse_place(env, m.group(2))
            return Ref(g, s_ if m.group(1) else None)
        m = re.fullmatch(r'(Option|Result|ControlFlow)::<.*?>::(\w+)\((.*)\)', rv)
        if m:
            return Enum(m.group(2), [self.operand(env, x) for x in split_args(m.group(3))])
        m = re.fullmatch(r'(Option|Result)::<.*>::(None)', rv)
        if m:
            return Enum('None')
        m = re.fullmatch(r"[\w:]+::<[^()]*>::(\w+)\((.*)\)", rv)   # enum variant with payload, e.g. GeometryCoordsIter::<'_, T>::Point(move _4)
        if m and not rv.startswith(('copy', 'move', 'const')):
            return Enum(m.group(1), [self.operand(env, x) for x in split_args(m.group(2))])
        m = re.fullmatch(r'(?:[\w]+::)*(\w+)::(\w+)\((.*)\)', rv)   # variant with payload of a non-generic enum declared in the source
        if m and not rv.startswith(('copy', 'move', 'const')) and any(m.group(2) in vs for vs in self.mir.enums.get(m.group(1), [])):
            return Enum(m.group(2), [self.operand(env, x) for x in split_args(m.group(3))])
        m = re.fullmatch(r'[\w:]+(?:::<.*?>)?\((.*)\)', rv)   # tuple-struct ctor, e.g. AffineTransform::<T>(move _2)
        if m and not rv.startswith(('copy', 'move', 'const')):
            return [self.operand(env, x) for x in split_args(m.group(1))]
        m = re.fullmatch(r'(?:[\w]+::)*(\w+)(?:::<[^{}]*>)?::(\w+) \{ (.*) \}', rv)   # struct-like variant of an enum declared in the source
        if m and any(m.group(2) in vs for vs in self.mir.enums.get(m.group(1), [])):
            return Enum(m.group(2), [self.operand(env, x.split(':', 1)[1]) for x in split_args(m.group(3))])
        m = re.fullmatch(r'[\w:]+(?:::<.*?>)? \{ (.*) \}', rv)  # struct ctor
        if m:
            return [self.operand(env, x.split(':', 1)[1]) for x in split_args(m.group(1))]
        m = re.fullmatch(r'[\w:]+::<[^()]*>::(\w+)', rv)          # fieldless variant of a generic enum, e.g. Closest::<F>::Indeterminate
        if m and not rv.startswith(('copy', 'move', 'const')):
            return Enum(m.group(1))
        m = re.fullmatch(r'(?:[\w]+::)+(\w+)', rv)                 # fieldless enum variant
        if m and not rv.startswith(('copy', 'move', 'const')):
            return Enum(m.group(1))
        return self.operand(env, rv)

    # ---- re-execution mode: one path per run, fresh state per run (sound with mutable state behind references)
    def choose(self, n):
        c = self.script[self.pos] if self.pos < len(self.script) else 0
        self.taken.append((c, n))
        self.pos += 1
        return c

    def explore(self, fn, make_args, collect=None, pc=None, max_runs=20000):
        """all paths of fn, each executed from scratch: make_args() builds fresh arguments (and resets
        whatever the uninterpreted callees record), collect() snapshots that record after the run.
        Returns [(path condition, value, snapshot)]"""
        results, script = [], []
        self.replay = True
        try:
            for _ in range(max_runs):
                self.script, self.pos, self.taken = list(script), 0, []
                outs = self.call_fn(fn, make_args(), pc if pc is not None else z3.BoolVal(True))
                if len(outs) > 1:
                    raise Untranslatable('re-execution produced more than one path')
                for pc_, val in outs:
                    results.append((pc_, val, collect() if collect else None))
                tr = list(self.taken)
                while tr and tr[-1][0] + 1 >= tr[-1][1]:
                    tr.pop()
                if not tr:
                    return results
                script = [c for c, _ in tr[:-1]] + [tr[-1][0] + 1]
            raise Untranslatable('more than %d paths' % max_runs)
        finally:
            self.replay = False

    # ---- calls
    def call_fn(self, fn, args, pc, depth=0):
        if depth > 12:
            raise Untranslatable('call depth')
        env = {a: v for a, v in zip(fn.args, args)}
        return self.run(fn, env, pc, depth)

    def resolve(self, callee, argv, pc, depth):
        T = self.T
        c = callee
        self.calls.append(c)
        d = [deref(a) for a in argv]
        m = re.fullmatch(r'<\w+ as (?:std::ops::)?(Add|Sub|Mul|Div|Neg)(?:<\w+>)?>::(add|sub|mul|div|neg)', c) or \
            re.fullmatch(r'<<\w+ as (?:std::ops::)?Neg>::Output as (?:std::ops::)?(Mul)<\w+>>::(mul)', c)
        if m:
            op = m.group(2)
            if op == 'neg':
                return [(pc, T.neg(d[0]))]
            return [(pc, getattr(T, op)(d[0], d[1]))]
        if re.fullmatch(r'<\w+ as (num_traits::)?Zero>::zero', c):
            return [(pc, T.const(0))]
        if re.fullmatch(r'<\w+ as (num_traits::)?One>::one', c):
            return [(pc, T.const(1))]
        if re.fullmatch(r'<\w+ as (num_traits::)?Zero>::is_zero', c):
            return [(pc, self.cmp('Eq', d[0], T.const(0)))]
        if re.fullmatch(r'<\w+ as (?:num_traits::)?Float>::is_finite', c) and isinstance(T, RealTheory):
            return [(pc, True)]
        if re.fullmatch(r'<\w+ as (?:num_traits::)?Float>::infinity', c) and isinstance(T, RealTheory):
            if not hasattr(self, 'infinity'):
                self.infinity = T.var('F_INFINITY')      # the obligation states what it dominates
            return [(pc, self.infinity)]
        if re.fullmatch(r'<\w+ as AddAssign>::add_assign', c) and isinstance(argv[0], Ref) and argv[0].set:
            argv[0].set(T.add(d[0], d[1]))
            return [(pc, [])]
        if re.fullmatch(r'<\w+ as (?:num_traits::)?Float>::(is_nan|is_infinite)', c) and isinstance(T, RealTheory):
            return [(pc, False)]      # the reals have neither; the obligation states the side condition (non-zero divisor)
        m = re.fullmatch(r'<\w+ as (?:num_traits::)?Float>::(max|min|abs)', c)
        if m and not isinstance(T, BVTheory):
            # over the reals / integers (no NaN): the mathematical max, min, |.|
            if m.group(1) == 'abs':
                return [(pc, z3.If(self.cmp('Ge', d[0], T.const(0)), d[0], T.neg(d[0])))]
            ge = self.cmp('Ge', d[0], d[1])
            return [(pc, z3.If(ge, d[0], d[1]) if m.group(1) == 'max' else z3.If(ge, d[1], d[0]))]
        if re.fullmatch(r'<&?[\w:]+<[\w:<>, ]+> as PartialEq>::(eq|ne)', c):
            eq = self.struct_eq(d[0], d[1])
            if c.endswith('ne'):
                eq = (not eq) if isinstance(eq, bool) else z3.Not(eq)
            return [(pc, eq)]
        if re.fullmatch(r'<\w+ as PartialOrd>::partial_cmp', c) and not isinstance(T, BVTheory) and not isinstance(d[0], Enum):
            # over the reals / integers there is no NaN: always Some
            a, b = d[0], d[1]
            return [(z3.And(pc, a < b), Enum('Some', [Enum('Less')])), (z3.And(pc, a == b), Enum('Some', [Enum('Equal')])),
                    (z3.And(pc, a > b), Enum('Some', [Enum('Greater')]))]
        if re.fullmatch(r'Option::<.*>::map::<.*>', c) and isinstance(d[0], Enum):
            if d[0].variant == 'None':
                return [(pc, Enum('None'))]
            return [(pc2, Enum('Some', [r])) for pc2, r in self.call_closure(d[1], [d[0].fields[0]], pc, depth)]
        m = re.fullmatch(r'<[\w:]+ as Ord>::(max|min)', c)
        if m and isinstance(d[0], SymEnum) and isinstance(d[1], SymEnum) and d[0].variants == d[1].variants:
            a_, b_ = d[0].var, d[1].var
            return [(pc, SymEnum(z3.If(a_ >= b_, a_, b_) if m.group(1) == 'max' else z3.If(a_ <= b_, a_, b_), d[0].variants))]
        m = re.fullmatch(r'Option::<.*>::unwrap_or', c)
        if m and isinstance(d[0], Enum):
            return [(pc, d[0].fields[0] if d[0].variant == 'Some' else d[1])]
        m = re.fullmatch(r'<.* as Iterator>::any::<.*>', c)
        if m:
            outs = []
            for pc0, items, _ in self.drain(d[0], pc, depth):
                live = [pc0]
                for x in items:
                    nxt = []
                    for pc1 in live:
                        for pc2, r in self.call_closure(d[1], [deref(x)], pc1, depth):
                            r = deref(r)
                            if isinstance(r, bool):
                                (outs if r else nxt).append((pc2, True) if r else pc2)
                            else:
                                outs.append((z3.And(pc2, r), True))
                                nxt.append(z3.And(pc2, z3.Not(r)))
                    live = nxt
                outs += [(p_, False) for p_ in live]
            return outs
        m = re.fullmatch(r'<.* as Iterator>::(min_by|max_by)::<.*>', c)
        if m:
            outs = []
            for pc0, items, _ in self.drain(d[0], pc, depth):
                if not items:
                    outs.append((pc0, Enum('None')))
                    continue
                states = [(pc0, items[0])]
                for y in items[1:]:
                    nxt = []
                    for pc1, x in states:
                        for pc2, o in self.call_closure(d[1], [Ref(lambda x=x: deref(x)), Ref(lambda y=y: deref(y))], pc1, depth):
                            o = deref(o)
                            if not isinstance(o, Enum):
                                raise Untranslatable('comparator did not return an Ordering')
                            if m.group(1) == 'min_by':
                                nxt.append((pc2, y if o.variant == 'Greater' else x))      # std: first minimum wins
                            else:
                                nxt.append((pc2, x if o.variant == 'Greater' else y))      # std: last maximum wins
                    states = nxt
                outs += [(p_, Enum('Some', [deref(x)])) for p_, x in states]
            return outs
        m = re.fullmatch(r'<[\w:]+ as Partial(?:Ord|Eq)>::(\w+)', c)
        if m:
            op = {'gt': 'Gt', 'lt': 'Lt', 'ge': 'Ge', 'le': 'Le', 'eq': 'Eq', 'ne': 'Ne'}[m.group(1)]
            if isinstance(d[0], (Enum, SymEnum)) or isinstance(d[1], (Enum, SymEnum)):
                if op not in ('Eq', 'Ne') and (isinstance(d[0], SymEnum) or isinstance(d[1], SymEnum)):
                    def idx(v, other):
                        if isinstance(v, SymEnum):
                            return v.var
                        if isinstance(v, Enum) and not v.fields and v.variant in other.variants:
                            return other.variants.index(v.variant)
                        raise Untranslatable('ordering comparison of a symbolic enum with %r' % (v,))
                    ref = d[0] if isinstance(d[0], SymEnum) else d[1]
                    if isinstance(d[0], SymEnum) and isinstance(d[1], SymEnum) and d[0].variants != d[1].variants:
                        raise Untranslatable('ordering comparison of symbolic enums of different types')
                    x, y = idx(d[0], ref), idx(d[1], ref)
                    return [(pc, {'Gt': x > y, 'Lt': x < y, 'Ge': x >= y, 'Le': x <= y}[op])]
                if op not in ('Eq', 'Ne'):
                    # derived PartialOrd on field-less enums = declaration order (read from the source)
                    a_, b_ = d[0], d[1]
                    if not (isinstance(a_, Enum) and isinstance(b_, Enum)) or a_.fields or b_.fields:
                        raise Untranslatable('ordering comparison of enum values with payload')
                    orders = [vs for vss in self.mir.enums.values() for vs in vss if a_.variant in vs and b_.variant in vs]
                    res = set((vs.index(a_.variant) > vs.index(b_.variant)) - (vs.index(a_.variant) < vs.index(b_.variant)) for vs in orders)
                    if len(res) != 1:
                        raise Untranslatable('cannot order enum variants %s / %s' % (a_.variant, b_.variant))
                    sgn = res.pop()
                    return [(pc, {'Gt': sgn > 0, 'Lt': sgn < 0, 'Ge': sgn >= 0, 'Le': sgn <= 0}[op])]
                eq = self.struct_eq(d[0], d[1])
                return [(pc, eq if op == 'Eq' else ((not eq) if isinstance(eq, bool) else z3.Not(eq)))]
            return [(pc, self.cmp(op, d[0], d[1]))]
        if re.fullmatch(r'<\w+ as NumCast>::from::<.*>', c):
            # source and target are the same scalar in every use inside the claimed functions
            if c.startswith('<f64 as NumCast>'):
                return [(pc, Enum('Some', [('to_f64', d[0])]))]
            return [(pc, Enum('Some', [d[0]]))]
        if re.fullmatch(r'Vec::<.*>::len', c):
            if not isinstance(d[0], list):
                raise Untranslatable('Vec::len of a non-list')
            return [(pc, len(d[0]))]
        if re.fullmatch(r'<Vec<.*> as Deref>::deref', c):
            return [(pc, argv[0])]
        m = re.fullmatch(r'core::slice::<impl \[.*\]>::(first|last)', c)
        if m:
            if not isinstance(d[0], list):
                raise Untranslatable('slice::first/last of a non-list')
            if not d[0]:
                return [(pc, Enum('None'))]
            k = 0 if m.group(1) == 'first' else len(d[0]) - 1
            return [(pc, Enum('Some', [Ref(lambda l=d[0], k=k: l[k])]))]
        if re.fullmatch(r'<Vec<.*> as Index<usize>>::index', c):
            if not isinstance(d[0], list) or not isinstance(d[1], int):
                raise Untranslatable('Vec index with a symbolic index')
            return [(pc, Ref(lambda l=d[0], k=d[1]: l[k]))]
        if re.fullmatch(r'<.* as IntoIterator>::into_iter', c) and isinstance(d[0], (SliceIter, Adaptor)):
            return [(pc, d[0])]
        if re.fullmatch(r'<&(\[.*\]|Vec<.*>) as IntoIterator>::into_iter', c) and isinstance(d[0], list):
            return [(pc, SliceIter(d[0]))]
        if re.fullmatch(r'<.* as Iterator>::next', c) and isinstance(d[0], Adaptor):
            # materialise on first use (only for adaptor chains that cannot fork); the adaptor then behaves as a slice iterator
            if not hasattr(d[0], 'mat'):
                outs = self.drain(d[0], pc, depth)
                if len(outs) != 1:
                    raise Untranslatable('next() on an adaptor chain whose contents depend on a symbolic condition')
                d[0].mat = SliceIter([deref(x) for x in outs[0][1]])
            d[0] = d[0].mat
        if re.fullmatch(r'(std::iter::)?once::<.*>', c):
            return [(pc, SliceIter([d[0]]))]
        if re.fullmatch(r'<.* as Iterator>::next', c) and isinstance(d[0], SliceIter):
            it = d[0]
            if it.pos < len(it.items):
                it.pos += 1
                return [(pc, Enum('Some', [clone_val(it.items[it.pos - 1])]))]
            return [(pc, Enum('None'))]
        if re.fullmatch(r'<.* as Fn(Once|Mut)?<\(.*\)>>::call(_once|_mut)?', c) and isinstance(d[0], Closure):
            args = d[1] if isinstance(d[1], list) else [d[1]]
            return self.call_closure(d[0], args, pc, depth)
        if re.fullmatch(r'<(\w+) as Into<\1>>::into', c):
            return [(pc, d[0])]
        if re.fullmatch(r'<Vec<.*> as DerefMut>::deref_mut', c):
            return [(pc, argv[0])]
        if re.fullmatch(r'Vec::<.*>::push', c):
            d[0].append(d[1])
            return [(pc, [])]
        if re.fullmatch(r'<\w+ as Ord>::cmp', c):
            a, b = d[0], d[1]
            rank = {'Empty': 0, 'ZeroDimensional': 1, 'OneDimensional': 2, 'TwoDimensional': 3}
            if isinstance(a, Enum) and isinstance(b, Enum) and a.variant in rank and b.variant in rank:
                ra, rb = rank[a.variant], rank[b.variant]
                return [(pc, Enum('Less' if ra < rb else ('Greater' if ra > rb else 'Equal')))]
            raise Untranslatable('Ord::cmp on unmodelled values')
        if re.fullmatch(r'Option::<.*>::as_(mut|ref)', c):
            cell = argv[0]
            opt = deref(cell)
            if isinstance(opt, Enum) and opt.variant == 'None':
                return [(pc, Enum('None'))]
            if isinstance(opt, Enum) and opt.variant == 'Some':
                return [(pc, Enum('Some', [Ref(lambda opt=opt: opt.fields[0], lambda v, opt=opt: opt.fields.__setitem__(0, v))]))]
            raise Untranslatable('Option::as_mut of ' + repr(opt))
        if re.fullmatch(r'Option::<.*>::map::<.*>', c):
            opt = d[0]
            if isinstance(opt, Enum) and opt.variant == 'None':
                return [(pc, Enum('None'))]
            if isinstance(opt, Enum) and opt.variant == 'Some':
                return [(pc2, Enum('Some', [v])) for pc2, v in self.call_closure(d[1], [opt.fields[0]], pc, depth)]
            raise Untranslatable('Option::map of ' + repr(opt))
        if re.fullmatch(r'<(geo_types|geometry::point)::Point<\w+> as From<(geo_types|geometry::coord)::Coord<\w+>>>::from', c):
            return [(pc, [d[0]])]
        if re.fullmatch(r'Option::<.*>::unwrap', c):
            e = d[0]
            if isinstance(e, Enum) and e.variant == 'Some':
                return [(pc, e.fields[0])]
            raise Untranslatable('unwrap of ' + repr(e))
        if re.fullmatch(r'<Option<.*> as Try>::branch', c):
            e = d[0]
            if isinstance(e, Enum) and e.variant == 'Some':
                return [(pc, Enum('Continue', [e.fields[0]]))]
            if isinstance(e, Enum) and e.variant == 'None':
                return [(pc, Enum('Break', [Enum('None')]))]
            raise Untranslatable('Try::branch of ' + repr(e))
        if re.fullmatch(r'<Option<.*> as FromResidual<.*>>::from_residual', c):
            return [(pc, Enum('None'))]
        if re.fullmatch(r'<Result<.*> as Try>::branch', c):
            e = d[0]
            if isinstance(e, Enum) and e.variant == 'Ok':
                return [(pc, Enum('Continue', [e.fields[0]]))]
            if isinstance(e, Enum) and e.variant == 'Err':
                return [(pc, Enum('Break', [Enum('Err', [e.fields[0]])]))]
            raise Untranslatable('Try::branch of ' + repr(e))
        if re.fullmatch(r'<Result<.*> as FromResidual<.*>>::from_residual', c):
            return [(pc, d[0])]
        # ---- iterator adaptors over slices (modelled: std semantics are trusted, see DESIGN)
        if re.fullmatch(r'core::slice::<impl \[.*\]>::iter', c) or re.fullmatch(r'geo_types::Multi\w+::<\w+>::iter', c):
            v = d[0]
            if isinstance(v, list) and len(v) == 1 and isinstance(deref(v[0]), list) and c.startswith('geo_types::Multi'):
                v = deref(v[0])       # Multi* is a tuple struct around a Vec
            if isinstance(v, SliceView):
                v = v.items()
            if not isinstance(v, list):
                raise Untranslatable('iter() over a non-list value')
            return [(pc, SliceIter(v))]
        if re.fullmatch(r'<&mut \[.*\] as IntoIterator>::into_iter', c) or re.fullmatch(r'<&mut Vec<.*> as IntoIterator>::into_iter', c):
            if not isinstance(d[0], list):
                raise Untranslatable('into_iter over a non-list value')
            return [(pc, IterMutV(d[0]))]
        if re.fullmatch(r'<std::slice::IterMut<.*> as Iterator>::next', c):
            it = d[0]
            if not isinstance(it, IterMutV):
                raise Untranslatable('IterMut::next on an unmodelled value')
            if it.pos < len(it.items):
                k = it.pos
                it.pos += 1
                return [(pc, Enum('Some', [Ref(lambda it=it, k=k: it.items[k], lambda v, it=it, k=k: it.items.__setitem__(k, v))]))]
            return [(pc, Enum('None'))]
        if re.fullmatch(r'<.* as Iterator>::for_each::<.*>', c):
            cur = pc
            for pc0, items, _ in self.drain(d[0], pc, depth) if isinstance(d[0], Adaptor) else [(pc, [Ref(lambda x=x: x) for x in d[0].items], None)]:
                for x in items:
                    outs = self.call_closure(d[1], [deref(x)], cur, depth)
                    if len(outs) != 1:
                        raise Untranslatable('for_each closure forked (captured state would be shared between paths)')
                    cur = outs[0][0]
            return [(cur, [])]
        if re.fullmatch(r'Vec::<.*>::new', c):
            return [(pc, [])]
        if re.fullmatch(r'std::mem::take::<&mut \[.*\]>', c) and isinstance(d[0], SliceView) and isinstance(argv[0], Ref) and argv[0].set:
            v = d[0]
            argv[0].set(SliceView(v.base, v.end, v.end))
            return [(pc, v)]
        if re.fullmatch(r'core::slice::<impl \[.*\]>::swap', c) and isinstance(d[0], SliceView):
            v, i, j = d[0], d[1], d[2]
            if not (isinstance(i, int) and isinstance(j, int)):
                raise Untranslatable('slice::swap with symbolic indices')
            if not (0 <= i < v.end - v.start and 0 <= j < v.end - v.start):
                raise Halt(pc, ('panic', 'slice::swap index out of bounds'))
            v.base[v.start + i], v.base[v.start + j] = v.base[v.start + j], v.base[v.start + i]
            return [(pc, [])]
        if re.fullmatch(r'core::slice::<impl \[.*\]>::split_first_mut', c) and isinstance(d[0], SliceView):
            v = d[0]
            if v.end == v.start:
                return [(pc, Enum('None'))]
            k = v.start
            return [(pc, Enum('Some', [[Ref(lambda v=v, k=k: v.base[k], lambda x, v=v, k=k: v.base.__setitem__(k, x)), SliceView(v.base, k + 1, v.end)]]))]
        if re.fullmatch(r'core::num::<impl usize>::saturating_sub', c) and isinstance(d[0], int) and isinstance(d[1], int):
            return [(pc, max(d[0] - d[1], 0))]
        m = re.fullmatch(r'(?:Option|Result)::<.*>::(is_some|is_none|is_ok|is_err)', c)
        if m and isinstance(d[0], Enum):
            return [(pc, d[0].variant == {'is_some': 'Some', 'is_none': 'None', 'is_ok': 'Ok', 'is_err': 'Err'}[m.group(1)])]
        if re.fullmatch(r'Option::<.*>::expect', c):
            e = d[0]
            if isinstance(e, Enum) and e.variant == 'Some':
                return [(pc, e.fields[0])]
            raise Untranslatable('expect of ' + repr(e))
        m = re.fullmatch(r'<.* as Iterator>::(map|flat_map|filter_map|filter|chain)::<.*>', c)
        if m:
            return [(pc, Adaptor({'filter_map': 'flat_map'}.get(m.group(1), m.group(1)), d[0], d[1]))]
        m = re.fullmatch(r'<.* as Iterator>::(skip|take)', c)
        if m:
            if not isinstance(d[1], int):
                raise Untranslatable('skip/take with a symbolic count')
            return [(pc, Adaptor(m.group(1), d[0], d[1]))]
        m = re.fullmatch(r'<.* as Iterator>::(rev|enumerate|copied|cloned)(::<.*>)?', c)
        if m:
            return [(pc, Adaptor({'cloned': 'copied'}.get(m.group(1), m.group(1)), d[0], None))]
        if re.fullmatch(r'<.* as Iterator>::fold::<.*>', c):
            outs = []
            for pc0, items, _ in self.drain(d[0], pc, depth):
                states = [(pc0, d[1])]
                for x in items:
                    states = [(pc2, y) for pc1, acc in states for pc2, y in self.call_closure(d[2], [acc, deref(x)], pc1, depth)]
                outs += states
            return outs
        if re.fullmatch(r'core::slice::<impl \[.*\]>::is_empty', c) or re.fullmatch(r'Vec::<.*>::is_empty', c):
            v = d[0].items if isinstance(d[0], SliceIter) else (d[0].items() if isinstance(d[0], SliceView) else d[0])
            if not isinstance(v, list):
                raise Untranslatable('is_empty of a non-list')
            return [(pc, len(v) == 0)]
        if re.fullmatch(r'<\w+ as (num_traits::)?(Bounded|Float)>::max_value', c) and not isinstance(T, BVTheory):
            # the largest finite value: an uninterpreted constant; obligations state what it dominates
            if not hasattr(self, 'max_value'):
                self.max_value = T.var('F_MAX_VALUE')
            return [(pc, self.max_value)]
        m = re.fullmatch(r'<.* as Iterator>::collect::<(.*)>', c)
        if m:
            target = m.group(1)
            outs = []
            for pc2, items, err in self.drain(d[0], pc, depth, stop_on_err=target.startswith('Result<')):
                if target.startswith('Result<'):
                    outs.append((pc2, Enum('Err', [err]) if err is not None else Enum('Ok', [items])))
                else:
                    outs.append((pc2, items))
            return outs
        if re.fullmatch(r'<impl Into<Coord<\w+>> as Into<geo_types::Coord<\w+>>>::into', c) or re.fullmatch(r'<geo_types::Point<\w+> as Into<geo_types::Coord<\w+>>>::into', c) \
                or re.fullmatch(r'<C as Into<geometry::coord::Coord<\w+>>>::into', c):
            v = d[0]
            if isinstance(v, list) and len(v) == 1 and isinstance(deref(v[0]), list):
                v = deref(v[0])   # a Point (tuple struct around a Coord) used where a Coord is expected
            return [(pc, v)]
        for upat, ufn in self.uf.items():
            if upat == c or (upat.startswith('re:') and re.fullmatch(upat[3:], c)):
                if getattr(ufn, 'wants_raw', False):
                    r = ufn(self, d, pc, argv)
                else:
                    r = ufn(self, d) if not getattr(ufn, 'wants_pc', False) else ufn(self, d, pc)
                if isinstance(r, tuple) and len(r) == 2 and r[0] == 'fork':
                    return [(z3.And(pc, cond), val) for cond, val in r[1]]
                if isinstance(r, tuple) and len(r) == 2 and r[0] == 'halt':
                    raise Halt(pc, r[1])
                return [(pc, r)]
        for pat, spec in self.extra.items():
            if re.fullmatch(pat, c):
                return self.call_fn(self.mir.find(*spec), argv, pc, depth + 1)
        raise Untranslatable('callee ' + c)

    def struct_eq(self, a, b):
        """derived PartialEq on aggregates / enums; anything else is refused, never guessed"""
        a, b = deref(a), deref(b)
        if isinstance(a, SymEnum) or isinstance(b, SymEnum):
            if isinstance(a, SymEnum) and isinstance(b, SymEnum):
                if a.variants != b.variants:
                    raise Untranslatable('comparison of symbolic enums of different types')
                return a.var == b.var
            se, en = (a, b) if isinstance(a, SymEnum) else (b, a)
            if not isinstance(en, Enum) or en.fields or en.variant not in se.variants:
                raise Untranslatable('comparison of a symbolic enum with %r' % (en,))
            return se.var == se.variants.index(en.variant)
        if isinstance(a, Enum) and isinstance(b, Enum):
            if a.variant != b.variant or len(a.fields) != len(b.fields):
                return False
            parts = [self.struct_eq(x, y) for x, y in zip(a.fields, b.fields)]
        elif isinstance(a, list) and isinstance(b, list):
            if len(a) != len(b):
                raise Untranslatable('structural eq on different shapes')
            parts = [self.struct_eq(x, y) for x, y in zip(a, b)]
        elif z3.is_expr(a) or z3.is_expr(b) or isinstance(a, (int, bool)) and isinstance(b, (int, bool)):
            return a == b
        elif isinstance(a, (tuple, str)) and isinstance(b, (tuple, str)):
            return a == b          # opaque concrete tokens: identity is decided concretely
        else:
            raise Untranslatable('structural eq on unmodelled values %r / %r' % (type(a).__name__, type(b).__name__))
        if any(p is False for p in parts):
            return False
        parts = [p for p in parts if p is not True]
        return z3.And(parts) if parts else True

    def closure_capture_count(self, loc):
        cache = self.mir.cache.setdefault('__captures__', {})
        if loc not in cache:
            cache[loc] = self._closure_capture_count(loc)
        return cache[loc]

    def _closure_capture_count(self, loc):
        for crate in self.mir.text:
            mm = re.search(r'^fn [^\n(]*\{closure#\d+\}\(_1: &?(?:mut )?\{closure@' + re.escape(loc) + r'\}.*?^\}\n', self.mir.text[crate], re.S | re.M)
            if mm:
                idx = [int(x) for x in re.findall(r'\(\*_1\)\.(\d+): ', mm.group(0))] + [int(x) for x in re.findall(r'\(_1\.(\d+): ', mm.group(0))]
                return max(idx) + 1 if idx else 0
        return 0

    def call_closure(self, clo, args, pc, depth):
        clo = deref(clo)
        if isinstance(clo, FnItem):
            return self.resolve(clo.path, args, pc, depth)
        if not isinstance(clo, Closure):
            raise Untranslatable('call of a non-closure value')
        cache = self.mir.cache.setdefault('__closures__', {})
        parent = getattr(clo, 'parent', None)
        key = (clo.loc, parent.text[:300] if parent is not None else None)
        if key not in cache:
            pat = r'[^\n(]*\{closure#\d+\}'
            cache[key] = None
            for crate in self.mir.text:
                text = self.mir.text[crate]
                ms = list(re.finditer(r'^fn (' + pat + r')\(_1: &?(?:mut )?\{closure@' + re.escape(clo.loc) + r'\}[^\n]*\{\n.*?^\}\n', text, re.S | re.M))
                if not ms:
                    continue
                if len(ms) > 1:
                    # macro instantiations share a source location: the closure printed right after its parent is the one
                    pos = text.find(parent.text) if parent is not None else -1
                    after = [m_ for m_ in ms if m_.start() > pos] if pos >= 0 else []
                    if not after:
                        raise Untranslatable('ambiguous closure body for ' + clo.loc)
                    ms = [after[0]]
                cache[key] = Fn(ms[0].group(1), ms[0].group(0))
                break
        if cache[key] is None:
            raise Untranslatable('closure body not found for ' + clo.loc)
        return self.call_fn(cache[key], [Ref(lambda: clo)] + args, pc, depth + 1)

    def drain(self, it, pc, depth, stop_on_err=False):
        """all (path condition, [items], first_error) outcomes of exhausting iterator `it`"""
        it = deref(it)
        if isinstance(it, SliceIter):
            return [(pc, [Ref(lambda x=x: x) for x in it.items], None)]
        if isinstance(it, list):
            return [(pc, [Ref(lambda x=x: x) for x in it], None)]
        if not isinstance(it, Adaptor):
            raise Untranslatable('collect() of an unmodelled iterator')
        if it.kind in ('skip', 'take', 'rev', 'enumerate', 'copied'):
            outs = []
            for pc0, items, err0 in self.drain(it.inner, pc, depth):
                if it.kind == 'skip':
                    items = items[it.closure:]
                elif it.kind == 'take':
                    items = items[:it.closure]
                elif it.kind == 'rev':
                    items = items[::-1]
                elif it.kind == 'enumerate':
                    items = [[k, x] for k, x in enumerate(items)]
                outs.append((pc0, items, err0))
            return outs
        if it.kind == 'chain':
            return [(pc1, a + b, None) for pc0, a, _ in self.drain(it.inner, pc, depth) for pc1, b, _ in self.drain(it.closure, pc0, depth)]
        if it.kind == 'filter':
            outs = []
            for pc0, inner_items, err0 in self.drain(it.inner, pc, depth):
                states = [(pc0, [])]
                for x in inner_items:
                    nxt = []
                    for pc1, acc in states:
                        for pc2, keep in self.call_closure(it.closure, [Ref(lambda x=x: x)], pc1, depth):
                            keep = deref(keep)
                            if isinstance(keep, bool):
                                nxt.append((pc2, acc + [x] if keep else acc))
                            else:
                                nxt.append((z3.And(pc2, keep), acc + [x]))
                                nxt.append((z3.And(pc2, z3.Not(keep)), acc))
                    states = nxt
                outs += [(pc1, acc, None) for pc1, acc in states]
            return outs
        outs = []
        for pc0, inner_items, err0 in self.drain(it.inner, pc, depth):
            states = [(pc0, [], None)]
            for x in inner_items:
                nxt = []
                for pc1, acc, err in states:
                    if err is not None:
                        nxt.append((pc1, acc, err))
                        continue
                    for pc2, y in self.call_closure(it.closure, [x], pc1, depth):
                        y = deref(y)
                        if it.kind == 'flat_map':
                            # closure returns an IntoIterator: Option / Result yield 0 or 1 item
                            if isinstance(y, Enum) and y.variant in ('Ok', 'Some'):
                                nxt.append((pc2, acc + [y.fields[0]], None))
                            elif isinstance(y, Enum) and y.variant in ('Err', 'None'):
                                nxt.append((pc2, acc, None))
                            else:
                                raise Untranslatable('flat_map over an unmodelled IntoIterator')
                        elif stop_on_err and isinstance(y, Enum) and y.variant in ('Ok', 'Err'):
                            if y.variant == 'Ok':
                                nxt.append((pc2, acc + [y.fields[0]], None))
                            else:
                                nxt.append((pc2, acc, y.fields[0]))
                        else:
                            nxt.append((pc2, acc + [y], None))
                states = nxt
            outs += states
        return outs

    # ---- execution
    def run(self, fn, env, pc, depth):
        results = []
        env = dict(env)
        env['__fn__'] = fn.name
        env['__fnobj__'] = fn
        work = [('bb0', env, pc)]
        steps = 0
        while work:
            bb, env, pc = work.pop()
            env = dict(env)
            steps += 1
            if steps > getattr(self, 'max_steps', 5000):
                raise Untranslatable('too many blocks (loop?) in ' + fn.name)
            for line in fn.blocks[bb]:
                line = line.rstrip(';')
                if line.startswith(('StorageLive', 'StorageDead', 'nop', 'FakeRead', 'PlaceMention', 'Retag', 'AscribeUserType', 'Coverage')):
                    continue
                m = re.fullmatch(r'goto -> (bb\d+)', line)
                if m:
                    work.append((m.group(1), env, pc))
                    break
                if line == 'return':
                    results.append((pc, env.get('_0')))
                    break
                if line == 'unreachable':
                    break
                m = re.fullmatch(r'drop\(.*\) -> \[return: (bb\d+).*\]', line)
                if m:
                    work.append((m.group(1), env, pc))
                    break
                m = re.fullmatch(r'switchInt\((.+?)\) -> \[(.+)\]', line)
                if m:
                    v = self.operand(env, m.group(1))
                    arms = split_args(m.group(2))
                    if isinstance(v, tuple) and v[0] == 'discr-sym':
                        se = v[1]
                        opts = []
                        for k_, var_ in enumerate(se.variants):
                            num = self.variant_index(var_, v[2], {})
                            tgt = None
                            for arm in arms:
                                key, t = [x.strip() for x in arm.split(':')]
                                if key == str(num):
                                    tgt = t
                            if tgt is None:
                                tgt = [a.split(':')[1].strip() for a in arms if a.strip().startswith('otherwise')][0]
                            opts.append((tgt, env, z3.And(pc, se.var == k_)))
                        if getattr(self, 'replay', False):
                            opts = [opts[self.choose(len(opts))]]
                        work += opts
                        break
                    if isinstance(v, tuple) and v[0] == 'discr':
                        order = {'None': 0, 'Some': 1, 'Continue': 0, 'Break': 1, 'Ok': 0, 'Err': 1,
                                 'Default': 0, 'Reversed': 1, 'Clockwise': 0, 'CounterClockwise': 1,
                                 'Less': 255, 'Equal': 0, 'Greater': 1,
                                 'Point': 0, 'Line': 1, 'LineString': 2, 'Polygon': 3, 'MultiPoint': 4, 'MultiLineString': 5,
                                 'MultiPolygon': 6, 'GeometryCollection': 7, 'Rect': 8, 'Triangle': 9,
                                 'Empty': 0, 'ZeroDimensional': 1, 'OneDimensional': 2, 'TwoDimensional': 3}
                        k = self.variant_index(v[1], v[2] if len(v) > 2 else None, order)
                        tgt = None
                        for arm in arms:
                            key, t = [x.strip() for x in arm.split(':')]
                            if key == str(k):
                                tgt = t
                        if tgt is None:
                            tgt = [a.split(':')[1].strip() for a in arms if a.strip().startswith('otherwise')][0]
                        work.append((tgt, env, pc))
                        break
                    if isinstance(v, bool):
                        for arm in arms:
                            key, t = [x.strip() for x in arm.split(':')]
                            if (key == '0') == (not v):
                                work.append((t, env, pc))
                        break
                    if not z3.is_bool(v):
                        raise Untranslatable('switchInt on non-bool ' + line)
                    opts = []
                    for arm in arms:
                        key, t = [x.strip() for x in arm.split(':')]
                        cond = z3.Not(v) if key == '0' else v
                        opts.append((t, env, z3.And(pc, cond)))
                    if getattr(self, 'replay', False):
                        opts = [opts[self.choose(len(opts))]]
                    work += opts
                    break
                m = re.fullmatch(r'assert\((!?)(.+?), ".*?".*\) -> \[success: (bb\d+).*\]', line)
                if m:
                    c = self.operand(env, m.group(2))
                    if m.group(1):
                        c = (not c) if isinstance(c, bool) else z3.Not(c)
                    if c is False:
                        raise Untranslatable('MIR assert is concretely false: ' + line[:80])
                    if c is not True:
                        self.obligations.append((pc, c, line[:70]))
                    work.append((m.group(3), env, pc))
                    break
                m = None
                mm = re.fullmatch(r'(.+?) = (.+) -> \[return: (bb\d+).*\]', line)
                if mm and mm.group(2).endswith(')'):
                    # callee(args): args = the last balanced parenthesis group (callee paths may
                    # themselves contain parentheses, e.g. `impl Fn(Coord<T>) -> Coord<NT>`)
                    body = mm.group(2)
                    dpt, k = 0, len(body) - 1
                    while k >= 0:
                        if body[k] == ')':
                            dpt += 1
                        elif body[k] == '(':
                            dpt -= 1
                            if dpt == 0:
                                break
                        k -= 1
                    if k > 0:
                        m = (mm.group(1), body[:k], body[k + 1:-1], mm.group(3))
                if m and ('::' in m[1] or m[1].startswith('<')):
                    dst, callee, args, tgt = m
                    argv = [self.operand(env, a) for a in split_args(args)]
                    try:
                        outs = self.resolve(callee, argv, pc, depth)
                    except Halt as h:
                        if depth != 0:
                            raise
                        results.append((h.pc, ('halted', h.tag)))
                        break
                    if getattr(self, 'replay', False) and len(outs) > 1:
                        outs = [outs[self.choose(len(outs))]]
                    for pc2, val in outs:
                        e2 = dict(env)
                        self.parse_place(e2, dst)[1](val)
                        work.append((tgt, e2, pc2))
                    break
                m = re.fullmatch(r'(.+?) = (.+)', line)
                if m:
                    val = self.rvalue(env, m.group(2))
                    self.parse_place(env, m.group(1))[1](val)
                    continue
                raise Untranslatable('statement ' + line)
        return results
