#!/usr/bin/env python3-vt
"""mir2smt: symbolic execution of loop-free functions of the *generic* MIR dump of /repo
(cargo +nightly rustc -- -Zunpretty=mir) into z3 terms.

The scalar type parameter T is interpreted by a theory object (Int, Real, or fixed-width BV with
recorded no-overflow side conditions).  All paths of a function are enumerated; each result is a
(path condition, value) pair.  Anything the interpreter does not understand raises Untranslatable,
which the caller reports as *inconclusive* (never a silent skip).
"""
import re, z3


class Untranslatable(Exception):
    pass


# ------------------------------------------------------------------------------- MIR loading

class Fn:
    def __init__(self, name, text):
        self.name = name
        self.text = text
        hdr = text.split('\n', 1)[0]
        self.args = re.findall(r'(_\d+): ', hdr[:hdr.rindex(') ->')])
        self.blocks = {}
        for m in re.finditer(r'^    (bb\d+)(?: \(cleanup\))?: \{\n(.*?)^    \}', text, re.S | re.M):
            self.blocks[m.group(1)] = [l.strip() for l in m.group(2).strip().split('\n')]


class Mir:
    def __init__(self, paths):
        self.text = {}
        for k, p in paths.items():
            self.text[k] = open(p).read()
        self.cache = {}

    def find(self, crate, pattern):
        key = (crate, pattern)
        if key in self.cache:
            return self.cache[key]
        ms = list(re.finditer(r'^fn (' + pattern + r')\((?:[^\n]*?)\) -> [^\n]*? \{\n.*?^\}\n', self.text[crate], re.S | re.M))
        if len(ms) != 1:
            raise Untranslatable('function pattern %r matches %d functions in %s' % (pattern, len(ms), crate))
        f = Fn(ms[0].group(1), ms[0].group(0))
        self.cache[key] = f
        return f


# ------------------------------------------------------------------------------- values

class Ref:
    """a reference to a place: get() / set(v)"""
    def __init__(self, get, setter=None):
        self.get = get
        self.set = setter


class Enum:
    def __init__(self, variant, fields=()):
        self.variant = variant
        self.fields = list(fields)

    def __repr__(self):
        return 'Enum(%s,%r)' % (self.variant, self.fields)


def deref(v):
    while isinstance(v, Ref):
        v = v.get()
    return v


def split_args(s):
    out, depth, cur = [], 0, ''
    i = 0
    while i < len(s):
        ch = s[i]
        if ch in '([{<':
            depth += 1
        elif ch in ')]}':
            depth -= 1
        elif ch == '>' and i > 0 and s[i - 1] != '-':
            depth -= 1
        if ch == ',' and depth == 0:
            out.append(cur.strip())
            cur = ''
        else:
            cur += ch
        i += 1
    if cur.strip():
        out.append(cur.strip())
    return out


# ------------------------------------------------------------------------------- theories

class IntTheory:
    """T = mathematical integers; every intermediate is recorded so that 'fits iN' can be stated"""
    name = 'Int'

    def __init__(self):
        self.intermediates = []

    def var(self, n):
        return z3.Int(n)

    def const(self, k):
        return z3.IntVal(k)

    def rec(self, v):
        self.intermediates.append(v)
        return v

    def add(self, a, b): return self.rec(a + b)
    def sub(self, a, b): return self.rec(a - b)
    def mul(self, a, b): return self.rec(a * b)
    def neg(self, a): return self.rec(-a)

    def div(self, a, b):
        raise Untranslatable('integer division is not modelled')

    def fits(self, bits):
        lo, hi = -(1 << (bits - 1)), (1 << (bits - 1)) - 1
        return z3.And([z3.And(v >= lo, v <= hi) for v in self.intermediates])


class RealTheory(IntTheory):
    """T = reals: algebraic correctness of a float formula, rounding explicitly outside the claim"""
    name = 'Real'

    def var(self, n):
        return z3.Real(n)

    def const(self, k):
        return z3.RealVal(k)

    def div(self, a, b):
        return a / b


class BVTheory:
    """T = two's-complement iN with wrap-around; no-overflow flags recorded per operation"""

    def __init__(self, bits):
        self.bits = bits
        self.name = 'BV%d' % bits
        self.noovf = []

    def var(self, n):
        return z3.BitVec(n, self.bits)

    def const(self, k):
        return z3.BitVecVal(k, self.bits)

    # no-overflow side conditions in portable SMT-LIB: the N-bit result sign-extended equals the
    # operation carried out on the sign-extended operands
    def _ok(self, wide, narrow, ext):
        self.noovf.append(wide == z3.SignExt(ext, narrow))

    def add(self, a, b):
        r = a + b
        self._ok(z3.SignExt(1, a) + z3.SignExt(1, b), r, 1)
        return r

    def sub(self, a, b):
        r = a - b
        self._ok(z3.SignExt(1, a) - z3.SignExt(1, b), r, 1)
        return r

    def mul(self, a, b):
        r = a * b
        self._ok(z3.SignExt(self.bits, a) * z3.SignExt(self.bits, b), r, self.bits)
        return r

    def neg(self, a):
        r = -a
        self._ok(-z3.SignExt(1, a), r, 1)
        return r

    def div(self, a, b):
        raise Untranslatable('bit-vector division is not modelled')


# ------------------------------------------------------------------------------- interpreter

class Interp:
    def __init__(self, mir, theory, resolver_extra=None, uf=None):
        self.mir = mir
        self.T = theory
        self.extra = resolver_extra or {}
        self.uf = uf or {}
        self.obligations = []   # (path_cond, cond, text): MIR asserts that are not trivially true
        self.calls = []         # callee names inlined or given meaning (for the evidence)
        self.fresh = 0

    # ---- places
    def parse_place(self, env, p):
        """returns (getter, setter)"""
        p = p.strip()
        # trailing index projections
        m = re.fullmatch(r'(.+)\[(_\d+|\d+ of \d+)\]', p)
        if m and self._balanced(m.group(1)):
            bg, bs = self.parse_place(env, m.group(1))
            ix = m.group(2)
            if ix.startswith('_'):
                idx = deref(env[ix])
                if not isinstance(idx, int):
                    raise Untranslatable('symbolic index ' + p)
            else:
                idx = int(ix.split()[0])

            def g(bg=bg, idx=idx):
                return deref(bg())[idx]

            def s_(v, bg=bg, idx=idx):
                deref(bg())[idx] = v
            return g, s_
        if re.fullmatch(r'_\d+', p):
            def g(p=p):
                if p not in env:
                    raise Untranslatable('read of unassigned local ' + p)
                return env[p]

            def s_(v, p=p):
                env[p] = v
            return g, s_
        if p.startswith('(') and p.endswith(')') and self._balanced(p[1:-1]):
            inner = p[1:-1].strip()
            if inner.startswith('*'):
                bg, bs = self.parse_place(env, inner[1:])

                def g(bg=bg):
                    r = bg()
                    return r.get() if isinstance(r, Ref) else r

                def s_(v, bg=bg):
                    r = bg()
                    if not isinstance(r, Ref) or r.set is None:
                        raise Untranslatable('write through a non-mutable reference')
                    r.set(v)
                return g, s_
            # downcast: (place as Variant)
            m = re.fullmatch(r'(.+) as (\w+)', inner)
            if m and self._balanced(m.group(1)):
                bg, bs = self.parse_place(env, m.group(1))

                def g(bg=bg, var=m.group(2)):
                    e = deref(bg())
                    if not isinstance(e, Enum) or e.variant != var:
                        raise Untranslatable('downcast of %r to %s' % (e, var))
                    return e.fields
                return g, None
            # field: (place.N: Type)
            m = re.match(r'(.+?)\.(\d+): ', inner)
            # find the split point robustly: last ".N: " at depth 0
            depth, pos = 0, None
            for i, ch in enumerate(inner):
                if ch in '([{<':
                    depth += 1
                elif ch in ')]}':
                    depth -= 1
                elif ch == '>' and inner[i - 1] != '-':
                    depth -= 1
                elif ch == '.' and depth == 0:
                    mm = re.match(r'\.(\d+): ', inner[i:])
                    if mm:
                        pos = (i, int(mm.group(1)))
                        break
            if pos:
                base, fld = inner[:pos[0]], pos[1]
                bg, bs = self.parse_place(env, base)

                def g(bg=bg, fld=fld):
                    v = deref(bg())
                    if isinstance(v, Enum):
                        v = v.fields
                    return v[fld]

                def s_(v, bg=bg, fld=fld):
                    b = deref(bg())
                    if isinstance(b, Enum):
                        b = b.fields
                    b[fld] = v
                return g, s_
        raise Untranslatable('place ' + p)

    @staticmethod
    def _balanced(s):
        d = 0
        for i, ch in enumerate(s):
            if ch in '([{':
                d += 1
            elif ch in ')]}':
                d -= 1
                if d < 0:
                    return False
        return d == 0

    def operand(self, env, o):
        o = o.strip()
        m = re.fullmatch(r'const (-?\d+)_(usize|isize|u8|u32|i32|u64|i64)', o)
        if m:
            return int(m.group(1))
        m = re.fullmatch(r'const (-?[\d.]+(?:E-?\d+)?)f64', o)
        if m:
            return ('f64const', m.group(1))
        if o == 'const true':
            return True
        if o == 'const false':
            return False
        m = re.fullmatch(r'const Option::<[^>]*>::None', o)
        if m:
            return Enum('None')
        if o.startswith('const '):
            raise Untranslatable('constant ' + o)
        for k in ('copy ', 'move '):
            if o.startswith(k):
                o = o[len(k):]
        g, _ = self.parse_place(env, o)
        return g()

    def cmp(self, op, a, b):
        a, b = deref(a), deref(b)
        if isinstance(a, tuple) and a[0] == 'f64const':
            a = z3.RealVal(a[1])
        if isinstance(b, tuple) and b[0] == 'f64const':
            b = z3.RealVal(b[1])
        return {'Lt': lambda: a < b, 'Le': lambda: a <= b, 'Gt': lambda: a > b, 'Ge': lambda: a >= b,
                'Eq': lambda: a == b, 'Ne': lambda: a != b}[op]()

    def rvalue(self, env, rv):
        rv = rv.strip()
        m = re.fullmatch(r'(Lt|Le|Gt|Ge|Eq|Ne)\((.+)\)', rv)
        if m:
            a, b = [self.operand(env, x) for x in split_args(m.group(2))]
            return self.cmp(m.group(1), a, b)
        m = re.fullmatch(r'discriminant\((.+)\)', rv)
        if m:
            e = deref(self.parse_place(env, m.group(1))[0]())
            if not isinstance(e, Enum):
                raise Untranslatable('discriminant of non-enum')
            return ('discr', e.variant)
        m = re.fullmatch(r'Not\((.+)\)', rv)
        if m:
            v = self.operand(env, m.group(1))
            return (not v) if isinstance(v, bool) else z3.Not(v)
        if rv.startswith('[') and rv.endswith(']'):
            return [self.operand(env, x) for x in split_args(rv[1:-1])]
        if rv.startswith('(') and rv.endswith(')') and ',' in rv and not rv.startswith('(*') and ': ' not in rv.split(',')[0]:
            return [self.operand(env, x) for x in split_args(rv[1:-1])]
        m = re.fullmatch(r'&(mut )?(.+)', rv)
        if m:
            g, s_ = self.parse_place(env, m.group(2))
            return Ref(g, s_ if m.group(1) else None)
        m = re.fullmatch(r'(Option|Result|ControlFlow)::<.*?>::(\w+)\((.*)\)', rv)
        if m:
            return Enum(m.group(2), [self.operand(env, x) for x in split_args(m.group(3))])
        m = re.fullmatch(r'(Option|Result)::<.*>::(None)', rv)
        if m:
            return Enum('None')
        m = re.fullmatch(r'[\w:]+(?:::<.*?>)?\((.*)\)', rv)   # tuple-struct ctor, e.g. AffineTransform::<T>(move _2)
        if m and not rv.startswith(('copy', 'move', 'const')):
            return [self.operand(env, x) for x in split_args(m.group(1))]
        m = re.fullmatch(r'[\w:]+(?:::<.*?>)? \{ (.*) \}', rv)  # struct ctor
        if m:
            return [self.operand(env, x.split(':', 1)[1]) for x in split_args(m.group(1))]
        m = re.fullmatch(r'(?:[\w]+::)+(\w+)', rv)                 # fieldless enum variant
        if m and not rv.startswith(('copy', 'move', 'const')):
            return Enum(m.group(1))
        return self.operand(env, rv)

    # ---- calls
    def call_fn(self, fn, args, pc, depth=0):
        if depth > 12:
            raise Untranslatable('call depth')
        env = {a: v for a, v in zip(fn.args, args)}
        return self.run(fn, env, pc, depth)

    def resolve(self, callee, argv, pc, depth):
        T = self.T
        c = callee
        self.calls.append(c)
        d = [deref(a) for a in argv]
        m = re.fullmatch(r'<\w+ as (?:std::ops::)?(Add|Sub|Mul|Div|Neg)(?:<\w+>)?>::(add|sub|mul|div|neg)', c) or \
            re.fullmatch(r'<<\w+ as (?:std::ops::)?Neg>::Output as (?:std::ops::)?(Mul)<\w+>>::(mul)', c)
        if m:
            op = m.group(2)
            if op == 'neg':
                return [(pc, T.neg(d[0]))]
            return [(pc, getattr(T, op)(d[0], d[1]))]
        if re.fullmatch(r'<\w+ as (num_traits::)?Zero>::zero', c):
            return [(pc, T.const(0))]
        if re.fullmatch(r'<\w+ as (num_traits::)?One>::one', c):
            return [(pc, T.const(1))]
        if re.fullmatch(r'<&?[\w:]+<\w+> as PartialEq>::(eq|ne)', c):
            def flat(v):
                v = deref(v)
                if isinstance(v, list):
                    return [y for x in v for y in flat(x)]
                return [v]
            fa, fb = flat(d[0]), flat(d[1])
            if len(fa) != len(fb):
                raise Untranslatable('structural eq on different shapes')
            eq = z3.And([x == y for x, y in zip(fa, fb)])
            return [(pc, eq if c.endswith('eq') else z3.Not(eq))]
        m = re.fullmatch(r'<\w+ as Partial(?:Ord|Eq)>::(\w+)', c)
        if m:
            op = {'gt': 'Gt', 'lt': 'Lt', 'ge': 'Ge', 'le': 'Le', 'eq': 'Eq', 'ne': 'Ne'}[m.group(1)]
            return [(pc, self.cmp(op, d[0], d[1]))]
        if re.fullmatch(r'<\w+ as NumCast>::from::<.*>', c):
            # source and target are the same scalar in every use inside the claimed functions
            if c.startswith('<f64 as NumCast>'):
                return [(pc, Enum('Some', [('to_f64', d[0])]))]
            return [(pc, Enum('Some', [d[0]]))]
        if re.fullmatch(r'Option::<.*>::unwrap', c):
            e = d[0]
            if isinstance(e, Enum) and e.variant == 'Some':
                return [(pc, e.fields[0])]
            raise Untranslatable('unwrap of ' + repr(e))
        if re.fullmatch(r'<Option<.*> as Try>::branch', c):
            e = d[0]
            if isinstance(e, Enum) and e.variant == 'Some':
                return [(pc, Enum('Continue', [e.fields[0]]))]
            if isinstance(e, Enum) and e.variant == 'None':
                return [(pc, Enum('Break', [Enum('None')]))]
            raise Untranslatable('Try::branch of ' + repr(e))
        if re.fullmatch(r'<Option<.*> as FromResidual<.*>>::from_residual', c):
            return [(pc, Enum('None'))]
        if re.fullmatch(r'<impl Into<Coord<\w+>> as Into<geo_types::Coord<\w+>>>::into', c) or re.fullmatch(r'<geo_types::Point<\w+> as Into<geo_types::Coord<\w+>>>::into', c):
            v = d[0]
            if isinstance(v, list) and len(v) == 1 and isinstance(deref(v[0]), list):
                v = deref(v[0])   # a Point (tuple struct around a Coord) used where a Coord is expected
            return [(pc, v)]
        for upat, ufn in self.uf.items():
            if upat == c or (upat.startswith('re:') and re.fullmatch(upat[3:], c)):
                r = ufn(self, d) if not getattr(ufn, 'wants_pc', False) else ufn(self, d, pc)
                if isinstance(r, tuple) and len(r) == 2 and r[0] == 'fork':
                    return [(z3.And(pc, cond), val) for cond, val in r[1]]
                return [(pc, r)]
        for pat, (crate, fpat) in self.extra.items():
            if re.fullmatch(pat, c):
                return self.call_fn(self.mir.find(crate, fpat), argv, pc, depth + 1)
        raise Untranslatable('callee ' + c)

    # ---- execution
    def run(self, fn, env, pc, depth):
        results = []
        work = [('bb0', env, pc)]
        steps = 0
        while work:
            bb, env, pc = work.pop()
            env = dict(env)
            steps += 1
            if steps > 5000:
                raise Untranslatable('too many blocks (loop?) in ' + fn.name)
            for line in fn.blocks[bb]:
                line = line.rstrip(';')
                if line.startswith(('StorageLive', 'StorageDead', 'nop', 'FakeRead', 'PlaceMention', 'Retag', 'AscribeUserType', 'Coverage')):
                    continue
                m = re.fullmatch(r'goto -> (bb\d+)', line)
                if m:
                    work.append((m.group(1), env, pc))
                    break
                if line == 'return':
                    results.append((pc, env.get('_0')))
                    break
                if line == 'unreachable':
                    break
                m = re.fullmatch(r'drop\(.*\) -> \[return: (bb\d+).*\]', line)
                if m:
                    work.append((m.group(1), env, pc))
                    break
                m = re.fullmatch(r'switchInt\((.+?)\) -> \[(.+)\]', line)
                if m:
                    v = self.operand(env, m.group(1))
                    arms = split_args(m.group(2))
                    if isinstance(v, tuple) and v[0] == 'discr':
                        order = {'None': 0, 'Some': 1, 'Continue': 0, 'Break': 1, 'Ok': 0, 'Err': 1}
                        k = order[v[1]]
                        tgt = None
                        for arm in arms:
                            key, t = [x.strip() for x in arm.split(':')]
                            if key == str(k):
                                tgt = t
                        if tgt is None:
                            tgt = [a.split(':')[1].strip() for a in arms if a.strip().startswith('otherwise')][0]
                        work.append((tgt, env, pc))
                        break
                    if isinstance(v, bool):
                        for arm in arms:
                            key, t = [x.strip() for x in arm.split(':')]
                            if (key == '0') == (not v):
                                work.append((t, env, pc))
                        break
                    if not z3.is_bool(v):
                        raise Untranslatable('switchInt on non-bool ' + line)
                    for arm in arms:
                        key, t = [x.strip() for x in arm.split(':')]
                        cond = z3.Not(v) if key == '0' else v
                        work.append((t, env, z3.And(pc, cond)))
                    break
                m = re.fullmatch(r'assert\((!?)(.+?), ".*?".*\) -> \[success: (bb\d+).*\]', line)
                if m:
                    c = self.operand(env, m.group(2))
                    if m.group(1):
                        c = (not c) if isinstance(c, bool) else z3.Not(c)
                    if c is False:
                        raise Untranslatable('MIR assert is concretely false: ' + line[:80])
                    if c is not True:
                        self.obligations.append((pc, c, line[:70]))
                    work.append((m.group(3), env, pc))
                    break
                m = re.fullmatch(r'(.+?) = (.+?)\((.*)\) -> \[return: (bb\d+).*\]', line)
                if m and ('::' in m.group(2) or m.group(2).startswith('<')) and not m.group(2).startswith(('Option::<', 'Result::<')) \
                        or (m and re.fullmatch(r'Option::<.*>::unwrap', m.group(2))):
                    dst, callee, args, tgt = m.groups()
                    argv = [self.operand(env, a) for a in split_args(args)]
                    outs = self.resolve(callee, argv, pc, depth)
                    for pc2, val in outs:
                        e2 = dict(env)
                        self.parse_place(e2, dst)[1](val)
                        work.append((tgt, e2, pc2))
                    break
                m = re.fullmatch(r'(.+?) = (.+)', line)
                if m:
                    val = self.rvalue(env, m.group(2))
                    self.parse_place(env, m.group(1))[1](val)
                    continue
                raise Untranslatable('statement ' + line)
        return results
