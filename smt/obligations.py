#!/usr/bin/env python3-vt
"""E2 obligations: SMT proofs over the translated MIR of /repo (see mir2smt.py).

  obligations.py --list  <PID>                         names of the obligations of a property
  obligations.py --run   <PID> --tier T --seed N --out F   regenerate MIR, translate, solve, write JSON
  obligations.py --replay <file>                       replay a recorded counterexample natively
"""
import argparse, json, os, random, re, subprocess, sys, time
import z3
sys.path.insert(0, os.path.dirname(os.path.abspath(__file__)))
from mir2smt import Mir, Interp, IntTheory, RealTheory, BVTheory, Enum, Ref, Untranslatable, deref

VERIF = os.path.dirname(os.path.dirname(os.path.abspath(__file__)))
REPO = os.environ.get('VERIF_REPO', '/repo')
CACHE = os.path.join(VERIF, '.cache')
MIRDIR = os.environ.get('VERIF_MIRDIR', os.path.join(CACHE, 'mir'))

AFF = r'affine_ops::<impl at geo/src/algorithm/affine_ops\.rs:\d+:\d+: \d+:\d+>::'
EXTRA = {
    r'affine_ops::AffineTransform::<\w+>::new': ('geo', AFF + 'new'),
    r'affine_ops::AffineTransform::<\w+>::compose': ('geo', AFF + 'compose'),
    r'affine_ops::AffineTransform::<\w+>::identity': ('geo', AFF + 'identity'),
    r'affine_ops::AffineTransform::<\w+>::rotate::<.*>': ('geo', AFF + 'rotate'),
    r'affine_ops::AffineTransform::<\w+>::scale::<.*>': ('geo', AFF + 'scale'),
    r'affine_ops::AffineTransform::<\w+>::skew::<.*>': ('geo', AFF + 'skew'),
    r'affine_ops::AffineTransform::<\w+>::translate': ('geo', AFF + 'translate'),
    r'geo_types::Coord::<\w+>::zero': ('geo_types', r'geometry::coord::<impl at geo-types/src/geometry/coord\.rs:\d+:\d+: \d+:27>::zero'),
    r'<Self as algorithm::kernels::Kernel<T>>::orient2d': ('geo', r'algorithm::kernels::Kernel::orient2d'),
    r'<geo_types::Coord<\w+> as Add>::add': ('geo_types', r'geometry::coord::<impl at [^>]*>::add'),
    r'<geo_types::Coord<\w+> as Sub>::sub': ('geo_types', r'geometry::coord::<impl at [^>]*>::sub'),
    r'<geo_types::Coord<\w+> as Mul<\w+>>::mul': ('geo_types', r'geometry::coord::<impl at [^>]*>::mul'),
    r'<geo_types::Coord<\w+> as Div<\w+>>::div': ('geo_types', r'geometry::coord::<impl at [^>]*>::div'),
    r'WeightedCentroid::<\w+>::add_assign': ('geo', r'centroid::<impl at [^>]*>::add_assign'),
    r'CentroidOperation::<\w+>::new': ('geo', r'centroid::<impl at geo/src/algorithm/centroid\.rs:44\d:1: [^>]*>::new'),
    r'WeightedCentroid::<\w+>::sub_assign': ('geo', r'centroid::<impl at [^>]*>::sub_assign'),
    r'CentroidOperation::<\w+>::add_weighted_centroid': ('geo', r'centroid::<impl at [^>]*>::add_weighted_centroid'),
    r'geo_types::Coord::<\w+>::x_y': ('geo_types', r'geometry::coord::<impl at [^>]*>::x_y'),
    r'geo_types::Line::<\w+>::determinant': ('geo_types', r'line::<impl at [^>]*>::determinant'),
    r'GeometryGraph::<.*>::determine_boundary': ('geo', r'geometry_graph::<impl at [^>]*>::determine_boundary'),
    r'swap_with_first_and_remove::<.*>': ('geo', r'swap_with_first_and_remove'),
    r'geo_types::Line::<\w+>::dx': ('geo_types', r'line::<impl at [^>]*>::dx'),
    r'geo_types::Line::<\w+>::dy': ('geo_types', r'line::<impl at [^>]*>::dy'),
    r'geo_types::Line::<\w+>::new::<.*>': ('geo_types', r'line::<impl at [^>]*>::new'),
}


def dump_mir():
    """regenerate the MIR of geo and geo-types from /repo's current working tree"""
    os.makedirs(MIRDIR, exist_ok=True)
    env = dict(os.environ, CARGO_TARGET_DIR=os.environ.get('VERIF_MIRTARGET', os.path.join(CACHE, 'mir-target')), CARGO_NET_OFFLINE='true')
    t0 = time.time()
    for crate, sub, extra in (('geo_types', 'geo-types', ['--features', 'use-rstar_0_12']), ('geo', 'geo', ['--no-default-features'])):
        root = os.path.join(REPO, sub)
        os.utime(os.path.join(root, 'src', 'lib.rs'))
        out = os.path.join(MIRDIR, crate + '.mir')
        with open(out, 'w') as f, open(os.path.join(MIRDIR, crate + '.err'), 'w') as e:
            rc = subprocess.call(['cargo', '+nightly', 'rustc', '--offline', '--lib'] + extra +
                                 ['--', '-Zunpretty=mir', '-C', 'debug-assertions=off', '-C', 'overflow-checks=on'],
                                 cwd=root, stdout=f, stderr=e, env=env)
        if rc != 0 or os.path.getsize(out) < 1000:
            raise RuntimeError('MIR dump of %s failed (rc=%s): %s' % (crate, rc, open(os.path.join(MIRDIR, crate + '.err')).read()[-800:]))
    return Mir({'geo': os.path.join(MIRDIR, 'geo.mir'), 'geo_types': os.path.join(MIRDIR, 'geo_types.mir')}, repo=REPO), time.time() - t0


# ------------------------------------------------------------------------------- solving

def check_unsat(name, formulas, timeout_s=60):
    """negated property must be unsat in z3 and (cross-check) cvc5. -> (status, info)"""
    s = z3.Solver()
    s.set('timeout', int(timeout_s * 1000))
    for f in formulas:
        s.add(f)
    t0 = time.time()
    r = s.check()
    tz = time.time() - t0
    info = {'z3': str(r), 'z3_s': round(tz, 3)}
    model = None
    if r == z3.sat:
        model = s.model()
    # cross-check with cvc5 on the exported SMT-LIB
    smt2 = '(set-logic ALL)\n' + s.to_smt2().replace('(set-info :status unknown)', '')
    path = os.path.join(MIRDIR, 'q_%s.smt2' % re.sub(r'\W', '_', name))
    open(path, 'w').write(smt2)
    t1 = time.time()
    try:
        p = subprocess.run(['cvc5', '--lang', 'smt2', '--tlimit=%d' % int(timeout_s * 1000), path], stdout=subprocess.PIPE, stderr=subprocess.STDOUT, text=True, timeout=timeout_s + 10)
        out = p.stdout.strip().splitlines()
        c = out[0] if out else 'no-output'
        if any('(error' in l for l in out):
            c = 'error'
        elif 'timeout' in c or 'interrupted' in c:
            c = 'timeout'
    except subprocess.TimeoutExpired:
        c = 'timeout'
    info['cvc5'] = c
    info['cvc5_s'] = round(time.time() - t1, 3)
    if r == z3.unsat and c in ('unsat', 'unknown', 'timeout'):
        if c != 'unsat':
            info['note'] = 'cvc5 cross-check did not finish (%s); verdict rests on z3' % c
        return 'pass', info, None
    if r == z3.unsat and c == 'sat':
        info['reason'] = 'solvers disagree (z3 unsat, cvc5 sat)'
        return 'inconclusive', info, None
    if r == z3.unsat:
        info['reason'] = 'cvc5: ' + c
        return 'inconclusive', info, None
    if r == z3.sat:
        return 'cex', info, model
    info['reason'] = 'z3: ' + str(r) + ' ' + s.reason_unknown()
    return 'inconclusive', info, None


def variant_is(val, name):
    return isinstance(val, Enum) and val.variant == name


# ------------------------------------------------------------------------------- obligations
# Each obligation: f(mir, tier, seed) -> dict(name, statement, theory, functions, status, ...)

OBL = {}


def obligation(pid, name, statement):
    def deco(f):
        OBL.setdefault(pid, []).append((name, statement, f))
        return f
    return deco


def coord(T, n):
    return [T.var(n + 'x'), T.var(n + 'y')]


def orient_paths(mir, T, fn_pat, crate='geo', uf=None):
    ip = Interp(mir, T, EXTRA, uf)
    fn = mir.find(crate, fn_pat)
    p, q, r = coord(T, 'p'), coord(T, 'q'), coord(T, 'r')
    outs = ip.call_fn(fn, [p, q, r], z3.BoolVal(True))
    return ip, (p, q, r), outs


def orientation_neg(outs, det):
    """negation of: result is CCW/CW/Collinear exactly according to the sign of det, and the paths are exhaustive"""
    bad = []
    for pc, val in outs:
        if not isinstance(val, Enum) or val.variant not in ('CounterClockwise', 'Clockwise', 'Collinear'):
            raise Untranslatable('unexpected orientation value %r' % (val,))
        want = {'CounterClockwise': det > 0, 'Clockwise': det < 0, 'Collinear': det == 0}[val.variant]
        bad.append(z3.And(pc, z3.Not(want)))
    bad.append(z3.Not(z3.Or([pc for pc, _ in outs])))
    return z3.Or(bad)


@obligation('C03', 'kernel_orient2d_int', 'for ALL integers p,q,r: Kernel::orient2d (the default body every integer type uses) returns CounterClockwise/Clockwise/Collinear exactly when the exact determinant (q-p)x(r-p) is >0/<0/=0')
def o_orient_int(mir, tier, seed):
    T = IntTheory()
    ip, (p, q, r), outs = orient_paths(mir, T, r'algorithm::kernels::Kernel::orient2d')
    det = (q[0] - p[0]) * (r[1] - p[1]) - (q[1] - p[1]) * (r[0] - p[0])
    st, info, model = check_unsat('kernel_orient2d_int', [orientation_neg(outs, det)])
    return dict(theory='Int (unbounded); machine iN agrees whenever every intermediate fits iN', functions=['geo::kernels::Kernel::orient2d'], paths=len(outs), status=st, info=info,
                model=model_ints(model, p + q + r), replay=('orient2d_i64', 'pqr'))


@obligation('C03', 'kernel_dot_product_sign_int', 'for ALL integers u,v: Kernel::dot_product_sign(u,v) is CounterClockwise/Clockwise/Collinear exactly when u.v is >0/<0/=0')
def o_dot(mir, tier, seed):
    T = IntTheory()
    ip = Interp(mir, T, EXTRA)
    fn = mir.find('geo', r'algorithm::kernels::Kernel::dot_product_sign')
    u, v = coord(T, 'u'), coord(T, 'v')
    outs = ip.call_fn(fn, [u, v], z3.BoolVal(True))
    dot = u[0] * v[0] + u[1] * v[1]
    st, info, model = check_unsat('kernel_dot_product_sign_int', [orientation_neg(outs, dot)])
    return dict(theory='Int (unbounded)', functions=['geo::kernels::Kernel::dot_product_sign'], paths=len(outs), status=st, info=info, model=model_ints(model, u + v), replay=('dot_sign_i64', 'uv'))


@obligation('C03', 'kernel_square_euclidean_distance_int', 'for ALL integers p,q: Kernel::square_euclidean_distance(p,q) = (p.x-q.x)^2 + (p.y-q.y)^2')
def o_sqd(mir, tier, seed):
    T = IntTheory()
    ip = Interp(mir, T, EXTRA)
    fn = mir.find('geo', r'algorithm::kernels::Kernel::square_euclidean_distance')
    p, q = coord(T, 'p'), coord(T, 'q')
    outs = ip.call_fn(fn, [p, q], z3.BoolVal(True))
    want = (p[0] - q[0]) * (p[0] - q[0]) + (p[1] - q[1]) * (p[1] - q[1])
    bad = z3.Or([z3.And(pc, val != want) for pc, val in outs] + [z3.Not(z3.Or([pc for pc, _ in outs]))])
    st, info, model = check_unsat('kernel_sqd_int', [bad])
    return dict(theory='Int (unbounded)', functions=['geo::kernels::Kernel::square_euclidean_distance'], paths=len(outs), status=st, info=info, model=model_ints(model, p + q), replay=('sqdist_i64', 'pq'))


@obligation('C03', 'robust_kernel_delegation', 'for ALL p,q,r: RobustKernel::orient2d (every float type) passes exactly (p.x,p.y),(q.x,q.y),(r.x,r.y), each through a lossless to-f64 cast, to robust::orient2d (uninterpreted here, Shewchuk exact sign) and maps result >0 / <0 / otherwise to CounterClockwise / Clockwise / Collinear')
def o_robust(mir, tier, seed):
    T = RealTheory()
    R = z3.RealSort()
    U = z3.Function('robust_orient2d', R, R, R, R, R, R, R)

    def strip(v):
        v = deref(v)
        if isinstance(v, tuple) and v[0] == 'to_f64':
            return v[1]
        raise Untranslatable('robust::orient2d received a value that is not a plain to-f64 cast of an input: %r' % (v,))

    def uf_orient(ip, d):
        flat = []
        for c in d:
            c = deref(c)
            flat += [strip(c[0]), strip(c[1])]
        return U(*flat)
    ip, (p, q, r), outs = orient_paths(mir, T, r'robust::<impl at geo/src/algorithm/kernels/robust\.rs:[^>]*>::orient2d', uf={'orient2d::<f64>': uf_orient})
    u = U(p[0], p[1], q[0], q[1], r[0], r[1])
    st, info, model = check_unsat('robust_kernel_delegation', [orientation_neg(outs, u)])
    return dict(theory='Real + uninterpreted robust::orient2d', functions=['geo::kernels::RobustKernel::orient2d'], paths=len(outs), status=st, info=info,
                model=None, replay=('robust_delegation', ''))


# ---- C01: when does relate() take the disjoint-envelope shortcut, and what does it return then

@obligation('C01', 'relate_shortcut_selection', 'RelateOperation::compute_intersection_matrix returns the matrix filled by compute_disjoint(geometry_a, geometry_b) - operands in that order, called exactly once on the empty-disjoint matrix - exactly when either operand has no bounding rectangle or the rectangles do not intersect, and builds no graph on that path; otherwise it does not call compute_disjoint before building the graphs (geometries, bounding_rect and Rect::intersects uninterpreted)')
def o_relate_shortcut(mir, tier, seed):
    T = RealTheory()
    has_a, has_b, inter = z3.Bool('a_has_bbox'), z3.Bool('b_has_bbox'), z3.Bool('bboxes_intersect')
    ra, rb = ['rect-a'], ['rect-b']
    calls = []

    def bbox(ip, d):
        g = deref(d[0])
        which = g[0] if isinstance(g, list) else g
        if which == 'geometry-a':
            return ('fork', [(has_a, Enum('Some', [ra])), (z3.Not(has_a), Enum('None'))])
        if which == 'geometry-b':
            return ('fork', [(has_b, Enum('Some', [rb])), (z3.Not(has_b), Enum('None'))])
        raise Untranslatable('bounding_rect of %r' % (g,))

    def ident(ip, d):
        return d[0]

    def intersects(ip, d):
        x, y = deref(d[0]), deref(d[1])
        if {x[0], y[0]} != {'rect-a', 'rect-b'}:
            raise Untranslatable('Rect::intersects on unexpected operands')
        return ('fork', [(inter, True), (z3.Not(inter), False)])

    def empty(ip, d):
        return ['matrix', 'empty-disjoint']

    def disjoint(ip, d, pc, argv):
        m, a, b = deref(d[0]), deref(d[1]), deref(d[2])
        calls.append((pc, list(m), a, b))
        # write through the &mut reference of THIS path (paths share Python objects otherwise)
        argv[0].set(['matrix', 'filled-by-compute_disjoint'])
        return []
    disjoint.wants_raw = True

    def graph(ip, d):
        return ('halt', 'graph construction')
    uf = {
        're:<dyn algorithm::relate::Relate<.*> as bounding_rect::BoundingRect<\\w+>>::bounding_rect': bbox,
        're:<BBOX\\d as Into<Option<geo_types::Rect<\\w+>>>>::into': ident,
        're:<geo_types::Rect<\\w+> as algorithm::intersects::Intersects>::intersects': intersects,
        'IntersectionMatrix::empty_disjoint': empty,
        're:IntersectionMatrix::compute_disjoint::<.*>': disjoint,
        're:<dyn algorithm::relate::Relate<.*> as algorithm::relate::Relate<\\w+>>::geometry_graph': graph,
    }
    ip = Interp(mir, T, EXTRA, uf)
    fn = mir.find('geo', r'relate_operation::<impl at [^>]*>::compute_intersection_matrix')
    me = [['geometry-a'], ['geometry-b'], 'nodes', 'isolated_edges', 'line_intersector']
    outs = ip.call_fn(fn, [Ref(lambda: me)], z3.BoolVal(True))
    shortcut = z3.Not(z3.And(has_a, has_b, inter))
    bad = [z3.Not(z3.Or([pc for pc, _ in outs]))]
    for pc, val in outs:
        if isinstance(val, tuple) and val[0] == 'halted':
            bad.append(z3.And(pc, shortcut))                      # graph built although the shortcut applies
        else:
            v = deref(val)
            ok = isinstance(v, list) and v[:2] == ['matrix', 'filled-by-compute_disjoint']
            bad.append(z3.And(pc, z3.Not(shortcut)) if ok else pc)   # returned early without (or with a wrong) matrix
    for pc, m, a, b in calls:
        wrong_args = not (m[:2] == ['matrix', 'empty-disjoint'] and a == ['geometry-a'] and b == ['geometry-b'])
        bad.append(pc if wrong_args else z3.And(pc, z3.Not(shortcut)))
    for i in range(len(calls)):
        for j in range(i + 1, len(calls)):
            bad.append(z3.And(calls[i][0], calls[j][0]))
    st, info, model = check_unsat('relate_shortcut_selection', [z3.Or(bad)])
    return dict(theory='Bool; geometries, bounding rectangles, Rect::intersects and the graph pipeline opaque', functions=['RelateOperation::compute_intersection_matrix (prefix up to graph construction)'], paths=len(outs), status=st, info=info, model=None, replay=('relate_shortcut', ''))


# ---- C06: the accumulation mechanism (dimension dominance) for ALL weights and coordinates

@obligation('C06', 'centroid_dimension_dominance', 'for three contributions of ANY dimensions (0, 1 or 2 each, 27 combinations, in the order given), ANY positive weights and ANY coordinates: CentroidOperation::new + add_centroid x3 + centroid() is the weighted mean of exactly the contributions of maximal dimension (a higher-dimensional contribution replaces lower ones, equal dimensions add); None before any contribution')
def o_centroid_dominance(mir, tier, seed):
    C = r'centroid::<impl at geo/src/algorithm/centroid\.rs:44\d:1: [^>]*>::'
    new, add, cen = mir.find('geo', C + 'new'), mir.find('geo', C + 'add_centroid'), mir.find('geo', C + 'centroid')
    dims = ['ZeroDimensional', 'OneDimensional', 'TwoDimensional']
    bad, npaths = [], 0
    T = RealTheory()
    w = [T.var('w%d' % i) for i in range(3)]
    cs = [coord(T, 'c%d' % i) for i in range(3)]
    assume = [x > 0 for x in w]
    for d0 in range(3):
        for d1 in range(3):
            for d2 in range(3):
                ds = [d0, d1, d2]
                ip = Interp(mir, T, EXTRA)
                op = call1(ip, new, [])
                if not variant_is(deref(call1(ip, cen, [Ref(lambda: op)])), 'None'):
                    bad.append(z3.BoolVal(True))
                cell = [op]
                for i in range(3):
                    outs = ip.call_fn(add, [Ref(lambda: cell[0], lambda v: cell.__setitem__(0, v)), Enum(dims[ds[i]]), clone_list(cs[i]), w[i]], z3.BoolVal(True))
                    if len(outs) != 1:
                        raise Untranslatable('add_centroid forked on concrete dimensions')
                res = deref(call1(ip, cen, [Ref(lambda: cell[0])]))
                npaths += 1
                if not variant_is(res, 'Some'):
                    bad.append(z3.BoolVal(True))
                    continue
                pt = deref(deref(res.fields[0])[0])
                mx = max(ds)
                sel = [i for i in range(3) if ds[i] == mx]
                W = sum(w[i] for i in sel)
                bad.append(z3.Or(pt[0] * W != sum(w[i] * cs[i][0] for i in sel), pt[1] * W != sum(w[i] * cs[i][1] for i in sel)))
    st, info, model = check_unsat('centroid_dimension_dominance', assume + [z3.Or(bad)])
    return dict(theory='Real (exact field arithmetic; weights > 0); dimensions enumerated concretely (27 combinations)', functions=['CentroidOperation::{new, add_centroid, add_weighted_centroid, centroid}', 'WeightedCentroid::add_assign'], paths=npaths, status=st, info=info, model=None, replay=('centroid_dominance', ''))


def clone_list(v):
    return [clone_list(x) for x in v] if isinstance(v, list) else v


# ---- C18: every Polygon constructor / mutator re-closes the rings it let user code touch
#      (rings opaque => ring size unbounded; 0..3 holes; closure opaque with a symbolic Ok/Err)

@obligation('C18', 'polygon_mutators_reclose', 'for polygons with 0..3 holes of ANY size: Polygon::new closes the exterior and every interior; exterior_mut / try_exterior_mut call LineString::close on the exterior AFTER the user closure on every path (Ok and Err); interiors_mut / try_interiors_mut do so for every interior; try_* return exactly the closure\'s result; interiors_push closes the new ring before appending it as the last interior')
def o_reclose(mir, tier, seed):
    P = r'geometry::polygon::<impl at geo-types/src/geometry/polygon\.rs:\d+:1: \d+:29>::'
    bad, npaths = [], 0

    def setup(nholes, fallible):
        T = RealTheory()
        events = []
        fail = z3.Bool('closure_returns_err')
        ext = Ring('ext', z3.BoolVal(True))
        holes = [Ring('hole%d' % i, z3.BoolVal(True)) for i in range(nholes)]

        def call_once(ip, d, pc):
            events.append((len(events), pc, 'call', None))
            if fallible:
                return ('fork', [(z3.Not(fail), Enum('Ok', [[]])), (fail, Enum('Err', ['the-error']))])
            return []
        call_once.wants_pc = True

        def close(ip, d, pc):
            events.append((len(events), pc, 'close', deref(d[0]).rid))
            return []
        close.wants_pc = True

        def into(ip, d):
            return Ring('pushed', z3.BoolVal(True))
        uf = {'re:<F as FnOnce<.*>>::call_once': call_once,
              're:line_string::LineString::<\\w+>::close': close,
              're:<impl Into<LineString<\\w+>> as Into<line_string::LineString<\\w+>>>::into': into}
        return Interp(mir, T, EXTRA, uf), events, fail, ext, holes

    def closed_after_call(events, pc_r, rid):
        calls = [i for i, pc, k, _ in events if k == 'call']
        last = max(calls) if calls else -1
        return z3.Or([pc for i, pc, k, r in events if k == 'close' and r == rid and i > last] + [z3.BoolVal(False)])

    for nholes in (0, 1, 2, 3):
        # ---- new
        ip, events, fail, ext, holes = setup(nholes, False)
        outs = ip.call_fn(mir.find('geo_types', P + 'new'), [ext, list(holes)], z3.BoolVal(True))
        npaths += len(outs)
        for pc, res in outs:
            rs = rings_of(res)
            if [r.rid for r in rs] != ['ext'] + ['hole%d' % i for i in range(nholes)]:
                bad.append(pc)
            for r in rs:
                bad.append(z3.And(pc, z3.Not(closed_after_call(events, pc, r.rid))))
        # ---- the four closure-taking mutators
        for name, fallible, targets in (('exterior_mut', False, 'ext'), ('try_exterior_mut', True, 'ext'), ('interiors_mut', False, 'holes'), ('try_interiors_mut', True, 'holes')):
            ip, events, fail, ext, holes = setup(nholes, fallible)
            poly = [ext, list(holes)]
            outs = ip.call_fn(mir.find('geo_types', P + name), [Ref(lambda poly=poly: poly), ('user-closure',)], z3.BoolVal(True))
            npaths += len(outs)
            bad.append(z3.Not(z3.Or([pc for pc, _ in outs])))
            ncalls = len([1 for e in events if e[2] == 'call'])
            if ncalls != 1:
                bad.append(z3.BoolVal(True))      # the closure must run exactly once
            for pc, res in outs:
                want = ['ext'] if targets == 'ext' else ['hole%d' % i for i in range(nholes)]
                for rid in want:
                    bad.append(z3.And(pc, z3.Not(closed_after_call(events, pc, rid))))
                if fallible:
                    res = deref(res)
                    if not isinstance(res, Enum) or res.variant not in ('Ok', 'Err'):
                        raise Untranslatable('%s returned %r' % (name, res))
                    bad.append(z3.And(pc, (res.variant == 'Err') != fail) if True else pc)
        # ---- interiors_push
        ip, events, fail, ext, holes = setup(nholes, False)
        poly = [ext, list(holes)]
        outs = ip.call_fn(mir.find('geo_types', P + 'interiors_push'), [Ref(lambda poly=poly: poly), ('new-ring',)], z3.BoolVal(True))
        npaths += len(outs)
        for pc, _ in outs:
            ids = [deref(r).rid for r in poly[1]]
            if ids != ['hole%d' % i for i in range(nholes)] + ['pushed']:
                bad.append(pc)
            bad.append(z3.And(pc, z3.Not(closed_after_call(events, pc, 'pushed'))))
    st, info, model = check_unsat('polygon_mutators_reclose', [z3.Or(bad)])
    return dict(theory='Bool (closure outcome symbolic); rings opaque (any size); Vec / IterMut modelled', functions=['Polygon::{new, exterior_mut, try_exterior_mut, interiors_mut, try_interiors_mut, interiors_push}'], paths=npaths, status=st, info=info, model=None, replay=('polygon_reclose', ''))


# ---- C19: the Geometry enum forwards every traversal method to the wrapped value's same method

@obligation('C19', 'geometry_enum_traversal_delegation', 'for each of the 10 variants of the Geometry enum: coords_iter, exterior_coords_iter and coords_count forward to exactly the SAME method of the wrapped value (a collection inside the enum forwards exterior_coords_iter to the collection\'s exterior_coords_iter, not to its coords_iter) and wrap the result in the same-named iterator variant')
def o_geometry_delegation(mir, tier, seed):
    G = r'algorithm::coords_iter::<impl at geo/src/algorithm/coords_iter\.rs:\d+:1: \d+:45>::'
    variants = ['Point', 'Line', 'LineString', 'Polygon', 'MultiPoint', 'MultiLineString', 'MultiPolygon', 'GeometryCollection', 'Rect', 'Triangle']
    bad, npaths = [], 0

    def member(ip, d):
        return ('delegated',)
    for method in ('coords_iter', 'exterior_coords_iter', 'coords_count'):
        fn = mir.find('geo', G + method, sig=r'_1: &geo_types::Geometry<')
        for v in variants:
            seen = []

            def deleg(ip, d, pc, argv, seen=seen):
                seen.append((ip.calls[-1], deref(d[0])))
                return ('delegated', ip.calls[-1])
            deleg.wants_raw = True
            ip = Interp(mir, RealTheory(), EXTRA, {'re:<geo_types::\\w+<\\w+> as (algorithm::)?coords_iter::CoordsIter>::\\w+': deleg})
            inner = ('inner-value', v)
            outs = ip.call_fn(fn, [Ref(lambda: Enum(v, [inner]))], z3.BoolVal(True))
            npaths += len(outs)
            want_callee = '<geo_types::%s<T> as algorithm::coords_iter::CoordsIter>::%s' % (v, method)
            ok = len(outs) == 1 and len(seen) == 1 and seen[0][0] == want_callee and seen[0][1] == inner
            if ok and method != 'coords_count':
                res = deref(outs[0][1])
                ok = isinstance(res, Enum) and res.variant == v and deref(res.fields[0]) == ('delegated', want_callee)
            if not ok:
                bad.append(z3.BoolVal(True))
    st, info, model = check_unsat('geometry_enum_traversal_delegation', [z3.Or(bad) if bad else z3.BoolVal(False)])
    return dict(theory='structural (concrete enum variants; the wrapped values and their CoordsIter methods opaque)', functions=['CoordsIter for Geometry: coords_iter, exterior_coords_iter, coords_count'], paths=npaths, status=st, info=info, model=None, replay=('geometry_delegation', ''))


# ---- C11: the nearest-endpoint fallback really returns a nearest end point

@obligation('C11', 'nearest_endpoint_is_nearest', 'line_intersection::nearest_endpoint(p, q), the fallback used when the computed crossing leaves the bounding boxes, returns one of the four end points, and one whose distance to the other segment is minimal among the four (point-to-segment distance uninterpreted: ANY four distance values); ties go to the earlier of p.start, p.end, q.start, q.end')
def o_nearest_endpoint(mir, tier, seed):
    T = RealTheory()
    R = z3.RealSort()
    p = [coord(T, 'ps'), coord(T, 'pe')]
    q = [coord(T, 'qs'), coord(T, 'qe')]
    dist = [T.var('d_ps'), T.var('d_pe'), T.var('d_qs'), T.var('d_qe')]
    key = {'psx': 0, 'pex': 1, 'qsx': 2, 'qex': 3}

    def pld(ip, d):
        return dist[key[str(deref(d[0])[0])]]
    ip = Interp(mir, T, EXTRA, {'re:geo_types::private_utils::point_line_euclidean_distance::<.*>': pld})
    fn = mir.find('geo', r'nearest_endpoint')
    outs = ip.call_fn(fn, [p, q], z3.BoolVal(True))
    ends = [p[0], p[1], q[0], q[1]]
    # distinct symbolic end points, so that the returned coordinate identifies the end point
    bad = [z3.Not(z3.Or([pc for pc, _ in outs]))]
    mn = dist[0]
    for d in dist[1:]:
        mn = z3.If(d < mn, d, mn)
    for pc, res in outs:
        res = deref(res)
        which = [k for k in range(4) if str(res[0]) == str(ends[k][0]) and str(res[1]) == str(ends[k][1])]
        if len(which) != 1:
            bad.append(pc)
            continue
        k = which[0]
        first_min = z3.And([dist[k] == mn] + [dist[j] != mn for j in range(k)])
        bad.append(z3.And(pc, z3.Not(first_min)))
    st, info, model = check_unsat('nearest_endpoint_is_nearest', [d >= 0 for d in dist] + [z3.Or(bad)])
    return dict(theory='Real; point_line_euclidean_distance uninterpreted (four arbitrary distances)', functions=['line_intersection::nearest_endpoint'], paths=len(outs), status=st, info=info,
                model=model_reals(model, dist), replay=('nearest_endpoint', ''))


# ---- C07 / C12: the clamped-projection formula is the true point-to-segment distance (all reals)

@obligation('C07', 'line_segment_distance_real', 'for ALL real points p and segments [a,b] (zero-length included): private_utils::line_segment_distance(p,a,b) is non-negative and its square equals the exact squared distance from p to the segment (|p-a|^2 before the start, |p-b|^2 beyond the end, cross^2/|b-a|^2 in between); hypot uninterpreted with h >= 0 and h^2 = x^2+y^2, float rounding outside')
def o_lsd(mir, tier, seed):
    T = RealTheory()
    assumptions = []
    hyp = {}

    def hypot(ip, d):
        k = (str(d[0]), str(d[1]))
        if k not in hyp:
            h = T.var('hypot_%d' % len(hyp))
            assumptions.extend([h >= 0, h * h == d[0] * d[0] + d[1] * d[1]])
            hyp[k] = h
        return hyp[k]

    def abs_(ip, d):
        return z3.If(d[0] >= 0, d[0], -d[0])

    def ident(ip, d):
        return d[0]
    uf = {'re:<\\w+ as num_traits::Float>::hypot': hypot, 're:<\\w+ as num_traits::Float>::abs': abs_,
          're:<C as Into<geometry::coord::Coord<\\w+>>>::into': ident}
    extra = dict(EXTRA)
    extra[r'line::Line::<\w+>::new::<.*>'] = ('geo_types', r'line::<impl at [^>]*>::new')
    extra[r'line_euclidean_length::<\w+>'] = ('geo_types', r'line_euclidean_length')
    extra[r'line::Line::<\w+>::dx'] = ('geo_types', r'line::<impl at [^>]*>::dx')
    extra[r'line::Line::<\w+>::dy'] = ('geo_types', r'line::<impl at [^>]*>::dy')
    extra[r'line::Line::<\w+>::delta'] = ('geo_types', r'line::<impl at [^>]*>::delta')
    extra[r'<geometry::coord::Coord<\w+> as Sub>::sub'] = ('geo_types', r'geometry::coord::<impl at [^>]*>::sub')
    extra[r'<geometry::coord::Coord<\w+> as PartialEq>::eq'] = ('geo_types', r'geometry::coord::<impl at [^>]*>::eq')
    ip = Interp(mir, T, extra, uf)
    fn = mir.find('geo_types', r'line_segment_distance')
    p, a, b = coord(T, 'p'), coord(T, 'a'), coord(T, 'b')
    outs = ip.call_fn(fn, [p, a, b], z3.BoolVal(True))
    sq = lambda u, v: (u[0] - v[0]) * (u[0] - v[0]) + (u[1] - v[1]) * (u[1] - v[1])
    L = sq(a, b)
    t = (p[0] - a[0]) * (b[0] - a[0]) + (p[1] - a[1]) * (b[1] - a[1])
    cross = (b[0] - a[0]) * (p[1] - a[1]) - (b[1] - a[1]) * (p[0] - a[0])
    # true squared distance times L (to stay polynomial): case analysis
    bad = [z3.Not(z3.Or([pc for pc, _ in outs]))]
    for pc, d in outs:
        want = z3.If(L == 0, d * d == sq(p, a),
                     z3.If(t <= 0, d * d == sq(p, a),
                           z3.If(t >= L, d * d == sq(p, b), d * d * L == cross * cross)))
        bad.append(z3.And(pc, z3.Or(d < 0, z3.Not(want))))
    st, info, model = check_unsat('line_segment_distance_real', assumptions + [z3.Or(bad)], timeout_s=40)
    return dict(theory='Real (nonlinear); hypot = h with h >= 0, h^2 = x^2 + y^2', functions=['geo_types::private_utils::line_segment_distance', 'line_euclidean_length', 'Line::dx', 'Line::dy'], paths=len(outs), status=st, info=info, model=None, replay=('line_segment_distance', ''))


# ---- C05: the shoelace kernel for ALL integer coordinates (ring sizes 3..5 distinct vertices)

@obligation('C05', 'ring_area_shoelace_int', 'for closed rings of 4, 5 and 6 coordinates with ANY integer coordinates: twice_signed_ring_area = sum of x_i*y_(i+1) - x_(i+1)*y_i (so the shift to the first vertex changes nothing mathematically); 0 for rings that are not closed and for fewer than 3 coordinates (LineString::lines modelled as the consecutive coordinate pairs, which C19 checks)')
def o_ring_area(mir, tier, seed):
    from mir2smt import SliceIter
    T = IntTheory()
    bad, npaths = [], 0

    def lines(ip, d):
        cs = deref(deref(d[0])[0])
        return SliceIter([[cs[i], cs[i + 1]] for i in range(len(cs) - 1)])
    extra = dict(EXTRA)
    extra[r'<geo_types::Line<\w+> as map_coords::MapCoords<\w+, \w+>>::map_coords::<.*>'] = ('geo', r'map_coords::<impl at geo/src/algorithm/map_coords\.rs:\d+:1: \d+:61>::map_coords', r'_1: &geo_types::Line<')
    extra[r'geo_types::Line::<\w+>::new::<.*>'] = ('geo_types', r'line::<impl at [^>]*>::new')
    extra[r'geo_types::Line::<\w+>::start_point'] = ('geo_types', r'line::<impl at [^>]*>::start_point')
    extra[r'geo_types::Line::<\w+>::end_point'] = ('geo_types', r'line::<impl at [^>]*>::end_point')
    extra[r'<geo_types::Point<\w+> as map_coords::MapCoords<\w+, \w+>>::map_coords::<.*>'] = ('geo', r'map_coords::<impl at geo/src/algorithm/map_coords\.rs:\d+:1: \d+:62>::map_coords', r'_1: &geo_types::Point<')
    fn = mir.find('geo', r'twice_signed_ring_area')
    for n in (4, 5, 6):
        pts = [coord(T, 'v%d_' % i) for i in range(n - 1)]
        ring = [[list(p) for p in pts] + [list(pts[0])]]          # LineString(Vec<Coord>) closed by construction
        ip = Interp(mir, T, extra, {'re:geo_types::LineString::<\\w+>::lines': lines})
        outs = ip.call_fn(fn, [Ref(lambda ring=ring: ring)], z3.BoolVal(True))
        npaths += len(outs)
        cs = pts + [pts[0]]
        want = sum(cs[i][0] * cs[i + 1][1] - cs[i + 1][0] * cs[i][1] for i in range(n - 1))
        bad.append(z3.Not(z3.Or([pc for pc, _ in outs])))
        for pc, val in outs:
            bad.append(z3.And(pc, val != want))
        # open ring of the same length: zero unless first == last
        opts = [coord(T, 'o%d_' % i) for i in range(n)]
        oring = [[list(p) for p in opts]]
        ip = Interp(mir, T, extra, {'re:geo_types::LineString::<\\w+>::lines': lines})
        outs = ip.call_fn(fn, [Ref(lambda oring=oring: oring)], z3.BoolVal(True))
        npaths += len(outs)
        is_open = z3.Or(opts[0][0] != opts[-1][0], opts[0][1] != opts[-1][1])
        for pc, val in outs:
            bad.append(z3.And(pc, is_open, val != 0))
    for n in (0, 1, 2):
        opts = [coord(T, 's%d_' % i) for i in range(n)]
        sring = [[list(p) for p in opts]]
        ip = Interp(mir, T, extra, {'re:geo_types::LineString::<\\w+>::lines': lines})
        outs = ip.call_fn(fn, [Ref(lambda sring=sring: sring)], z3.BoolVal(True))
        npaths += len(outs)
        for pc, val in outs:
            bad.append(z3.And(pc, val != 0))
    st, info, model = check_unsat('ring_area_shoelace_int', [z3.Or(bad)])
    return dict(theory='Int (unbounded coordinates; ring length concrete 4..6, loops unrolled over the modelled lines() iterator)', functions=['area::twice_signed_ring_area', 'area::twice_signed_ring_area::{closure#0}', 'MapCoords for Line', 'Line::determinant'], paths=npaths, status=st, info=info, model=None, replay=('ring_area', ''))


# ---- C15: the interpolation walk for ANY metric space and ANY segment lengths

@obligation('C15', 'linestring_walk_any_metric', 'for line strings of 1, 2 and 3 segments, ANY metric space (segment lengths arbitrary non-negative reals, interpolation uninterpreted) and ANY distance d: point_at_distance_from_start returns the start for d <= 0, otherwise the metric\'s interpolation inside the FIRST segment k whose cumulative length reaches d, at distance d minus the lengths before it, and the end beyond the total length; point_at_distance_from_end is the same walk over the reversed line string; None exactly for an empty line string')
def o_walk(mir, tier, seed):
    from mir2smt import SliceIter
    T = RealTheory()
    I = r'interpolate_line::<impl at geo/src/algorithm/line_measures/interpolate_line\.rs:\d+:1: \d+:60>::'
    bad, npaths = [], 0
    for from_end in (False, True):
        fn = mir.find('geo', I + ('point_at_distance_from_end' if from_end else 'point_at_distance_from_start'))
        for nseg in (0, 1, 2, 3):
            ncoord = 0 if nseg == 0 else nseg + 1
            pts = [('vertex', i) for i in range(ncoord)]
            L = [T.var('len%d' % i) for i in range(nseg)]
            d = T.var('d')

            def seg_index(a, b):
                i, j = a[1], b[1]
                return min(i, j)

            def lines(ip, a):
                return SliceIter([[[pts[i]], [pts[i + 1]]] for i in range(nseg)])      # Line { start: Point-able coord, end }

            def rev_lines(ip, a):
                return SliceIter([[[pts[i + 1]], [pts[i]]] for i in reversed(range(nseg))])

            def length(ip, a):
                seg = deref(a[1])
                return L[seg_index(deref(seg[0])[0], deref(seg[1])[0])]

            def interp(ip, a):
                return ('interp', deref(a[1]), deref(a[2]), a[3])

            def endpoint(which):
                def f(ip, a):
                    seg = deref(a[0])
                    return ('point-of', deref(seg[which])[0])
                return f

            def to_point(ip, a):
                return ('point-of', deref(a[0]))
            uf = {'re:geo_types::LineString::<\\w+>::lines': lines, 're:geo_types::LineString::<\\w+>::rev_lines': rev_lines,
                  're:<MetricSpace as (algorithm::)?line_measures::length::Length<\\w+>>::length::<geo_types::Line<\\w+>>': length,
                  're:<MetricSpace as (algorithm::)?(line_measures::)?interpolate_point::InterpolatePoint<\\w+>>::point_at_distance_between': interp,
                  're:geo_types::Line::<\\w+>::start_point': endpoint(0), 're:geo_types::Line::<\\w+>::end_point': endpoint(1),
                  're:geo_types::Point::<\\w+>': to_point}
            ip = Interp(mir, T, EXTRA, uf)
            ls = [list(pts)]
            outs = ip.call_fn(fn, [Ref(lambda ls=ls: ls), ('metric-space',), d], z3.BoolVal(True))
            npaths += len(outs)
            assume = [x >= 0 for x in L]
            order = list(range(nseg)) if not from_end else list(reversed(range(nseg)))
            first_pt = (pts[0] if pts else None) if not from_end else (pts[-1] if pts else None)
            last_pt = (pts[-1] if pts else None) if not from_end else (pts[0] if pts else None)
            cases = [z3.Not(z3.Or([pc for pc, _ in outs]))]
            for pc, res in outs:
                res = deref(res)
                if nseg == 0:
                    cases.append(pc if not variant_is(res, 'None') else z3.BoolVal(False))
                    continue
                if not variant_is(res, 'Some'):
                    cases.append(pc)
                    continue
                v = deref(res.fields[0])
                if isinstance(v, list) and len(v) == 1 and isinstance(deref(v[0]), tuple) and deref(v[0])[0] == 'vertex':
                    v = ('point-of', deref(v[0]))          # Point(coord) built directly from a vertex
                if isinstance(v, tuple) and v[0] == 'point-of':
                    # an end point of the line string: must be the clamped case
                    total = sum(L)
                    if v[1] == first_pt:
                        cases.append(z3.And(pc, z3.Not(d <= 0)))
                    elif v[1] == last_pt:
                        cases.append(z3.And(pc, z3.Not(d > total)))
                    else:
                        cases.append(pc)
                elif isinstance(v, tuple) and v[0] == 'interp':
                    a0, b0, dist = v[1], v[2], v[3]
                    a0 = a0[1] if isinstance(a0, tuple) else a0
                    b0 = b0[1] if isinstance(b0, tuple) else b0
                    k = seg_index(a0, b0)
                    pos = order.index(k)
                    before = sum(L[i] for i in order[:pos]) if pos else T.const(0)
                    direction_ok = (a0[1] < b0[1]) != from_end
                    want = z3.And(d > 0, before < d, d <= before + L[k], dist == d - before)
                    cases.append(pc if not direction_ok else z3.And(pc, z3.Not(want)))
                else:
                    cases.append(pc)
            bad.append(z3.And(assume + [z3.Or(cases)]))
    st, info, model = check_unsat('linestring_walk_any_metric', [z3.Or(bad)])
    return dict(theory='Real; segment lengths and the metric\'s interpolation uninterpreted; lines() / rev_lines() modelled as the (reversed) consecutive pairs', functions=['InterpolatableLine for LineString: point_at_distance_from_start, point_at_distance_from_end'], paths=npaths, status=st, info=info, model=None, replay=('linestring_walk', ''))


# ---- C12: Line::closest_point over the reals

@obligation('C12', 'line_closest_point_real', 'for ALL real lines [a,b] and points p: Line::closest_point is Indeterminate exactly for a zero-length line; otherwise it returns a point c = a + clamp(t,0,1)(b-a) whose squared distance to p is the exact squared distance from p to the segment; it is Intersection exactly when p lies on the segment (and then c = p), SinglePoint otherwise (Euclidean length uninterpreted with h >= 0, h^2 = dx^2+dy^2; the on-segment predicate it consults is C02/C03\'s subject and enters as its exact definition)')
def o_closest(mir, tier, seed):
    T = RealTheory()
    assumptions = []
    a, b, p = coord(T, 'a'), coord(T, 'b'), coord(T, 'p')
    dx, dy = b[0] - a[0], b[1] - a[1]
    L = dx * dx + dy * dy
    t = (p[0] - a[0]) * dx + (p[1] - a[1]) * dy
    cross = dx * (p[1] - a[1]) - dy * (p[0] - a[0])
    on = z3.And(cross == 0, t >= 0, t <= L)
    h = T.var('length')
    assumptions += [h >= 0, h * h == L]

    def length(ip, d):
        return h

    def intersects(ip, d):
        return ('fork', [(on, True), (z3.Not(on), False)])

    def ident(ip, d):
        return d[0]

    def to_point(ip, d):
        return [d[0]]

    def pair_to_coord(ip, d):
        return d[0]
    uf = {'re:<euclidean::Euclidean as (algorithm::)?line_measures::length::Length<\\w+>>::length::<geo_types::Line<\\w+>>': length,
          're:<geo_types::Line<\\w+> as (algorithm::)?intersects::Intersects<geo_types::Point<\\w+>>>::intersects': intersects,
          're:<geo_types::Coord<\\w+> as Into<geo_types::Point<\\w+>>>::into': to_point,
          're:<\\(\\w+, \\w+\\) as Into<geo_types::Coord<\\w+>>>::into': pair_to_coord}
    extra = dict(EXTRA)
    extra[r'geo_types::Point::<\w+>::dot'] = ('geo_types', r'geometry::point::<impl at [^>]*>::dot')
    extra[r'geo_types::Point::<\w+>::x'] = ('geo_types', r'geometry::point::<impl at [^>]*>::x')
    extra[r'geo_types::Point::<\w+>::y'] = ('geo_types', r'geometry::point::<impl at [^>]*>::y')
    extra[r'geometry::point::Point::<\w+>::x'] = ('geo_types', r'geometry::point::<impl at [^>]*>::x')
    extra[r'geometry::point::Point::<\w+>::y'] = ('geo_types', r'geometry::point::<impl at [^>]*>::y')
    ip = Interp(mir, T, extra, uf)
    fn = mir.find('geo', r'closest_point::<impl at [^>]*>::closest_point', sig=r'_1: &geo_types::Line<')
    outs = ip.call_fn(fn, [Ref(lambda: [a, b]), Ref(lambda: [p])], z3.BoolVal(True))
    sq = lambda u, v: (u[0] - v[0]) * (u[0] - v[0]) + (u[1] - v[1]) * (u[1] - v[1])
    bad = [z3.Not(z3.Or([pc for pc, _ in outs]))]
    for pc, res in outs:
        res = deref(res)
        if variant_is(res, 'Indeterminate'):
            bad.append(z3.And(pc, L != 0))
            continue
        if not (variant_is(res, 'Intersection') or variant_is(res, 'SinglePoint')):
            raise Untranslatable('closest_point returned %r' % (res,))
        c = deref(deref(res.fields[0])[0])
        d2 = sq(c, p)
        exact = z3.If(t <= 0, d2 == sq(p, a), z3.If(t >= L, d2 == sq(p, b), d2 * L == cross * cross))
        kind_ok = on if res.variant == 'Intersection' else z3.Not(on)
        payload = z3.And(c[0] == p[0], c[1] == p[1]) if res.variant == 'Intersection' else z3.BoolVal(True)
        bad.append(z3.And(pc, z3.Or(L == 0, z3.Not(exact), z3.Not(kind_ok), z3.Not(payload))))
    st, info, model = check_unsat('line_closest_point_real', assumptions + [z3.Or(bad)], timeout_s=30)
    return dict(theory='Real (nonlinear); Euclidean length = h with h >= 0, h^2 = dx^2 + dy^2; Line.intersects(Point) = its exact definition', functions=['ClosestPoint for Line', 'Point::dot'], paths=len(outs), status=st, info=info, model=None, replay=('line_closest_point', ''))


# ---- C15: densify keeps every original vertex, in order, with the inserted points in between

@obligation('C15', 'densify_linestring_structure', 'for line strings of 0-4 coordinates, repeated consecutive vertices included: densify returns, in order, every original vertex with exactly the output of densify_between(previous, next) between consecutive ones, and the last vertex at the end (densify_between itself uninterpreted)')
def o_densify(mir, tier, seed):
    from mir2smt import SliceIter
    fn = mir.find('geo', r'densify::<impl at [^>]*>::densify', sig=r'_1: &geo_types::LineString<')
    bad, npaths = [], 0
    patterns = [[], ['v0'], ['v0', 'v1'], ['v0', 'v1', 'v2'], ['v0', 'v1', 'v1', 'v2'], ['v0', 'v0'], ['v0', 'v1', 'v0', 'v0']]
    for pat in patterns:
        verts = [('vertex', v) for v in pat]

        def lines(ip, d, verts=verts):
            return SliceIter([[verts[i], verts[i + 1]] for i in range(len(verts) - 1)])

        def between(ip, d):
            deref(d[3]).append(('between', deref(d[1]), deref(d[2])))
            return []

        def endpoint(k):
            def f(ip, d):
                return ('point', deref(d[0])[k])
            return f

        def into_point(ip, d):
            return ('point', deref(d[0]))

        def count(ip, d):
            return len(deref(deref(d[0])[0]))

        def from_points(ip, d):
            return ('linestring-of', list(deref(d[0])))

        def ls_new(ip, d):
            return ('linestring-of', list(deref(d[0])))
        uf = {'re:geo_types::LineString::<\\w+>::lines': lines, 're:densify_between::<.*>': between,
              're:geo_types::Line::<\\w+>::start_point': endpoint(0), 're:geo_types::Line::<\\w+>::end_point': endpoint(1),
              're:<geo_types::Coord<\\w+> as Into<geo_types::Point<\\w+>>>::into': into_point,
              're:<geo_types::LineString<\\w+> as (algorithm::)?coords_iter::CoordsIter>::coords_count': count,
              're:<geo_types::LineString<\\w+> as From<Vec<geo_types::Point<\\w+>>>>::from': from_points,
              're:geo_types::LineString::<\\w+>::new': ls_new}
        ip = Interp(mir, RealTheory(), EXTRA, uf)
        ls = [list(verts)]
        outs = ip.call_fn(fn, [Ref(lambda ls=ls: ls), ('metric-space',), RealTheory().var('max_len')], z3.BoolVal(True))
        npaths += len(outs)
        want = []
        for i, v in enumerate(verts):
            want.append(('point', v))
            if i + 1 < len(verts):
                want.append(('between', ('point', v), ('point', verts[i + 1])))
        ok = len(outs) == 1 and isinstance(deref(outs[0][1]), tuple) and deref(outs[0][1])[0] == 'linestring-of' and [deref(x) for x in deref(outs[0][1])[1]] == want
        if not ok:
            bad.append(z3.BoolVal(True))
    st, info, model = check_unsat('densify_linestring_structure', [z3.Or(bad) if bad else z3.BoolVal(False)])
    return dict(theory='structural (concrete vertex-identity patterns, repeated vertices included); densify_between opaque', functions=['Densifiable for LineString: densify', 'densify::{closure#0}'], paths=npaths, status=st, info=info, model=None, replay=('densify_structure', ''))


# ---- C06: what each simple member contributes (dimension, centroid, weight)

@obligation('C06', 'centroid_member_contributions', 'a valid Triangle contributes (TwoDimensional, mean of its vertices, unsigned_area) - the weight is the UNSIGNED area whatever the vertex order; a Rect with area contributes (TwoDimensional, Rect::centroid(), unsigned_area); a Line with length contributes (OneDimensional, its midpoint, Euclidean length)')
def o_contrib(mir, tier, seed):
    C = r'centroid::<impl at geo/src/algorithm/centroid\.rs:44\d:1: [^>]*>::'
    T = RealTheory()
    bad, npaths = [], 0
    UA, SA, LEN = T.var('unsigned_area'), T.var('signed_area'), T.var('euclidean_length')
    rec = []

    def add_centroid(ip, d, pc):
        rec.append((pc, deref(d[1]), deref(d[2]), d[3]))
        return []
    add_centroid.wants_pc = True
    base = {'re:CentroidOperation::<\\w+>::add_centroid': add_centroid,
            're:<geo_types::\\w+<\\w+> as (algorithm::)?area::Area<\\w+>>::unsigned_area': lambda ip, d: UA,
            're:<geo_types::\\w+<\\w+> as (algorithm::)?area::Area<\\w+>>::signed_area': lambda ip, d: SA,
            're:<euclidean::Euclidean as (algorithm::)?line_measures::length::Length<\\w+>>::length::<.*>': lambda ip, d: LEN}
    a, b, c = coord(T, 'a'), coord(T, 'b'), coord(T, 'c')
    # Triangle
    uf = dict(base)
    uf['re:<geo_types::Triangle<\\w+> as (algorithm::)?dimensions::HasDimensions>::dimensions'] = lambda ip, d: Enum('TwoDimensional')
    ip = Interp(mir, T, EXTRA, uf)
    tri = [a, b, c]
    outs = ip.call_fn(mir.find('geo', C + 'add_triangle'), [Ref(lambda: ['op']), Ref(lambda: tri)], z3.BoolVal(True))
    npaths += len(outs)
    if len(rec) != 1 or not variant_is(rec[0][1], 'TwoDimensional'):
        bad.append(z3.BoolVal(True))
    else:
        _, _, cen, w = rec[0]
        bad.append(z3.Or(cen[0] * 3 != a[0] + b[0] + c[0], cen[1] * 3 != a[1] + b[1] + c[1], w != UA))
    # Line (with length)
    del rec[:]
    uf = dict(base)
    uf['re:<geo_types::Line<\\w+> as (algorithm::)?dimensions::HasDimensions>::dimensions'] = lambda ip, d: Enum('OneDimensional')
    uf['re:<geo_types::Line<\\w+> as (algorithm::)?centroid::Centroid>::centroid'] = lambda ip, d: [[(deref(d[0])[0][0] + deref(d[0])[1][0]) / 2, (deref(d[0])[0][1] + deref(d[0])[1][1]) / 2]]
    ip = Interp(mir, T, EXTRA, uf)
    outs = ip.call_fn(mir.find('geo', C + 'add_line'), [Ref(lambda: ['op']), Ref(lambda: [a, b])], z3.BoolVal(True))
    npaths += len(outs)
    if len(rec) != 1 or not variant_is(rec[0][1], 'OneDimensional'):
        bad.append(z3.BoolVal(True))
    else:
        _, _, cen, w = rec[0]
        bad.append(z3.Or(cen[0] * 2 != a[0] + b[0], cen[1] * 2 != a[1] + b[1], w != LEN))
    # Rect (with area)
    del rec[:]
    uf = dict(base)
    RC = [coord(T, 'rect_centre')]
    uf['re:<geo_types::Rect<\\w+> as (algorithm::)?dimensions::HasDimensions>::dimensions'] = lambda ip, d: Enum('TwoDimensional')
    uf['re:<geo_types::Rect<\\w+> as (algorithm::)?centroid::Centroid>::centroid'] = lambda ip, d: RC
    ip = Interp(mir, T, EXTRA, uf)
    outs = ip.call_fn(mir.find('geo', C + 'add_rect'), [Ref(lambda: ['op']), Ref(lambda: ('rect',))], z3.BoolVal(True))
    npaths += len(outs)
    if len(rec) != 1 or not variant_is(rec[0][1], 'TwoDimensional'):
        bad.append(z3.BoolVal(True))
    else:
        _, _, cen, w = rec[0]
        bad.append(z3.Or(cen[0] != RC[0][0], cen[1] != RC[0][1], w != UA))
    st, info, model = check_unsat('centroid_member_contributions', [z3.Or(bad)])
    return dict(theory='Real; dimensions(), unsigned_area(), signed_area(), Euclidean length and Line::centroid uninterpreted', functions=['CentroidOperation::add_triangle', 'CentroidOperation::add_line', 'CentroidOperation::add_rect'], paths=npaths, status=st, info=info, model=None, replay=('centroid_contributions', ''))


@obligation('C06', 'polygon_centroid_assembly', 'add_polygon, rings opaque (each ring with area contributes an arbitrary (weight, weighted sum) of dimension two through add_ring, 0-2 holes): the polygon contributes exterior minus holes as ONE two-dimensional weighted centroid - unless the holes cancel the exterior weight exactly, in which case the exterior is added as a LINE STRING (add_line_string, lengths as weights) and nothing else; an empty exterior contributes nothing')
def o_poly_assembly(mir, tier, seed):
    from mir2smt import SliceIter
    C = r'centroid::<impl at geo/src/algorithm/centroid\.rs:44\d:1: [^>]*>::'
    fn = mir.find('geo', C + 'add_polygon')
    T = RealTheory()
    bad, npaths = [], 0
    for ext_empty in (False, True):
        for k in (0, 1, 2):
            rings = {'ext': (T.var('w_ext'), coord(T, 'acc_ext'))}
            for i in range(k):
                rings['h%d' % i] = (T.var('w_h%d' % i), coord(T, 'acc_h%d' % i))
            events = []
            selfop = [Enum('None')]

            def add_ring(ip, d, pc, argv, rings=rings, ext_empty=ext_empty, events=events, selfop=selfop):
                op, ring = d[0], d[1]
                if op is selfop:
                    events.append((pc, 'ring_on_self', ring))
                    return []
                if ring == ('ring', 'ext') and ext_empty:
                    return []
                w, acc = rings[ring[1]]
                cur = deref(op[0])
                if variant_is(cur, 'None'):
                    op[0] = Enum('Some', [[w, list(acc), Enum('TwoDimensional')]])
                else:
                    wc = deref(cur.fields[0])
                    op[0] = Enum('Some', [[wc[0] + w, [wc[1][0] + acc[0], wc[1][1] + acc[1]], Enum('TwoDimensional')]])
                return []
            add_ring.wants_raw = True

            def add_ls(ip, d, pc):
                events.append((pc, 'line_string', d[1]))
                return []
            add_ls.wants_pc = True

            def add_wc(ip, d, pc):
                events.append((pc, 'weighted', d[1]))
                return []
            add_wc.wants_pc = True
            uf = {'re:geo_types::Polygon::<\\w+>::exterior': lambda ip, d: ('ring', 'ext'),
                  're:geo_types::Polygon::<\\w+>::interiors': lambda ip, d, k=k: SliceIter([('ring', 'h%d' % i) for i in range(k)]),
                  're:CentroidOperation::<\\w+>::add_ring': add_ring,
                  're:CentroidOperation::<\\w+>::add_line_string': add_ls,
                  're:CentroidOperation::<\\w+>::add_weighted_centroid': add_wc}
            ip = Interp(mir, T, EXTRA, uf)
            outs = ip.call_fn(fn, [Ref(lambda selfop=selfop: selfop), ('polygon',)], z3.BoolVal(True))
            npaths += len(outs)
            W = rings['ext'][0] - sum(rings['h%d' % i][0] for i in range(k))
            AX = rings['ext'][1][0] - sum(rings['h%d' % i][1][0] for i in range(k))
            AY = rings['ext'][1][1] - sum(rings['h%d' % i][1][1] for i in range(k))
            if ext_empty:
                if events:
                    bad.append(z3.Or([pc for pc, _, _ in events]))
                continue
            cancel = z3.And(k > 0, W == 0)
            for pc, kind, val in events:
                if kind == 'ring_on_self':
                    bad.append(pc)     # rings are never accumulated directly into the caller's operation
                elif kind == 'line_string':
                    bad.append(z3.And(pc, z3.Not(cancel)) if val == ('ring', 'ext') else pc)
                else:
                    wc = deref(val)
                    ok = z3.And(wc[0] == W, wc[1][0] == AX, wc[1][1] == AY, z3.BoolVal(variant_is(wc[2], 'TwoDimensional')), z3.Not(cancel))
                    bad.append(z3.And(pc, z3.Not(ok)))
            # exactly one contribution on every path
            pcs = [pc for pc, _, _ in events]
            bad.append(z3.Not(z3.Or(pcs)) if pcs else z3.BoolVal(True))
            for i in range(len(pcs)):
                for j in range(i + 1, len(pcs)):
                    bad.append(z3.And(pcs[i], pcs[j]))
    st, info, model = check_unsat('polygon_centroid_assembly', [z3.Or(bad)])
    return dict(theory='Real; rings opaque, add_ring modelled by its contract (adds an arbitrary two-dimensional weighted centroid per ring); add_line_string / add_weighted_centroid recorded', functions=['CentroidOperation::add_polygon', 'WeightedCentroid::sub_assign'], paths=npaths, status=st, info=info, model=None, replay=('centroid_contributions', ''))


@obligation('C06', 'centroid_collection_traversal', 'the loops of the centroid accumulation, members opaque: add_multi_point adds every point exactly when nothing of higher dimension has been accumulated (0-3 points, every current dimension); add_multi_line_string / add_line_string likewise for dimension <= 1 (a 1-coordinate line string contributes its coordinate, otherwise one add_line per segment, in order); add_multi_polygon and add_geometry_collection add every member once, in order; add_geometry dispatches each of the 10 variants to the matching add_* with the wrapped value')
def o_centroid_traversal(mir, tier, seed):
    from mir2smt import SliceIter
    C = r'centroid::<impl at geo/src/algorithm/centroid\.rs:44\d:1: [^>]*>::'
    T = RealTheory()
    bad, npaths = 0, 0
    dims = ['Empty', 'ZeroDimensional', 'OneDimensional', 'TwoDimensional']
    rank = {d: i for i, d in enumerate(dims)}

    def run(fname, arg, cur_dim, lines=None):
        events = []

        def rec(name):
            def f(ip, d):
                events.append((name, canon(d[1])))
                return []
            return f
        uf = {'re:CentroidOperation::<\\w+>::centroid_dimensions': lambda ip, d: Enum(cur_dim)}
        for nm in ('add_coord', 'add_line', 'add_line_string', 'add_polygon', 'add_multi_point', 'add_multi_line_string', 'add_multi_polygon', 'add_geometry_collection', 'add_rect', 'add_triangle', 'add_geometry'):
            if nm != fname:
                uf['re:CentroidOperation::<\\w+>::%s' % nm] = rec(nm)
        if lines is not None:
            uf['re:geo_types::LineString::<\\w+>::lines'] = lambda ip, d: SliceIter(list(lines))
        uf['re:<&geo_types::GeometryCollection<\\w+> as IntoIterator>::into_iter'] = lambda ip, d: SliceIter(deref(d[0])[0])
        ip = Interp(mir, T, EXTRA, uf)
        outs = ip.call_fn(mir.find('geo', C + fname), [Ref(lambda: ['op']), Ref(lambda: arg)], z3.BoolVal(True))
        return len(outs), events
    for cur in dims:
        for n in (0, 1, 2, 3):
            # multi point: members are Points (tuple struct around a coordinate)
            np_, ev = run('add_multi_point', [[[('c', i)] for i in range(n)]], cur)
            npaths += np_
            want = [('add_coord', ('c', i)) for i in range(n)] if rank[cur] <= 1 else []
            bad += (np_ != 1 or ev != want)
            np_, ev = run('add_multi_line_string', [[('ls', i) for i in range(n)]], cur)
            npaths += np_
            want = [('add_line_string', ('ls', i)) for i in range(n)] if rank[cur] <= 2 else []
            bad += (np_ != 1 or ev != want)
            np_, ev = run('add_multi_polygon', [[('poly', i) for i in range(n)]], cur)
            npaths += np_
            bad += (np_ != 1 or ev != [('add_polygon', ('poly', i)) for i in range(n)])
            np_, ev = run('add_geometry_collection', [[('geom', i) for i in range(n)]], cur)
            npaths += np_
            bad += (np_ != 1 or ev != [('add_geometry', ('geom', i)) for i in range(n)])
        for n in (0, 1, 2, 3, 4):
            coords = [('c', i) for i in range(n)]
            segs = [(('c', i), ('c', i + 1)) for i in range(n - 1)]
            np_, ev = run('add_line_string', [coords], cur, lines=segs)
            npaths += np_
            if rank[cur] > 2:
                want = []
            elif n == 1:
                want = [('add_coord', ('c', 0))]
            else:
                want = [('add_line', s_) for s_ in segs]
            bad += (np_ != 1 or ev != want)
    for variant, target in (('Point', 'add_coord'), ('Line', 'add_line'), ('LineString', 'add_line_string'), ('Polygon', 'add_polygon'), ('MultiPoint', 'add_multi_point'),
                            ('MultiLineString', 'add_multi_line_string'), ('MultiPolygon', 'add_multi_polygon'), ('GeometryCollection', 'add_geometry_collection'), ('Rect', 'add_rect'), ('Triangle', 'add_triangle')):
        inner = [('the-coord',)] if variant == 'Point' else ('inner', variant)
        np_, ev = run('add_geometry', Enum(variant, [inner]), 'Empty')
        npaths += np_
        want = [(target, ('the-coord',) if variant == 'Point' else ('inner', variant))]
        bad += (np_ != 1 or ev != want)
    st, info, model = check_unsat('centroid_collection_traversal', [z3.BoolVal(bad > 0)])
    return dict(theory='structural (every configuration run concretely: current dimension x member count); members opaque', functions=['CentroidOperation::{add_multi_point, add_multi_line_string, add_line_string, add_multi_polygon, add_geometry_collection, add_geometry}'], paths=npaths, status=st, info=info, model=None, replay=('centroid_contributions', ''))


# ---- C07: which rings a polygon-polygon distance is taken between, and over which vertices

def zmin(xs):
    m = xs[0]
    for x in xs[1:]:
        m = z3.If(x <= m, x, m)
    return m


@obligation('C07', 'polygon_polygon_distance_dispatch', 'Euclidean distance of two polygons with 0-2 holes each, rings opaque: 0 when they intersect; when A has holes and A\'s shell contains B\'s first shell vertex, the minimum over A\'s holes of the ring distance to B\'s shell; symmetrically for B; otherwise the ring distance between the two shells (intersects, ring_contains_coord and nearest_neighbour_distance uninterpreted; F::max_value() dominates every distance)')
def o_pp_dispatch(mir, tier, seed):
    fn = mir.find('geo', r'euclidean::distance::<impl at [^>]*>::distance', sig=r'_2: &geo_types::Polygon<F>, _3: &geo_types::Polygon<F>')
    T = RealTheory()
    bad, assume, npaths = [], [], 0
    for na in (0, 1, 2):
        for nb in (0, 1, 2):
            ring = lambda name: [[('coord', name, 0), ('coord', name, 1)]]
            polys = {'A': (ring('A'), [ring('Ah%d' % i) for i in range(na)]), 'B': (ring('B'), [ring('Bh%d' % i) for i in range(nb)])}
            rid = lambda r: deref(deref(r)[0])[0][1]
            I = z3.Bool('intersects_%d%d' % (na, nb))
            contains, nn = {}, {}

            def rcc(ip, d, contains=contains, rid=rid, na=na, nb=nb):
                key = (rid(d[0]), d[1][1], d[1][2])
                return contains.setdefault(key, z3.Bool('contains_%s_%s%d_%d%d' % (key + (na, nb))))

            def nnd(ip, d, nn=nn, rid=rid, na=na, nb=nb):
                key = tuple(sorted((rid(d[0]), rid(d[1]))))
                return nn.setdefault(key, T.var('nn_%s_%s_%d%d' % (key + (na, nb))))
            uf = {'re:<geo_types::Polygon<F> as (algorithm::)?intersects::Intersects>::intersects': lambda ip, d, I=I: I,
                  're:geo_types::Polygon::<\\w+>::exterior': lambda ip, d: d[0][0],
                  're:geo_types::Polygon::<\\w+>::interiors': lambda ip, d: d[0][1],
                  're:(euclidean::distance::)?ring_contains_coord::<\\w+>': rcc,
                  're:(euclidean::distance::)?nearest_neighbour_distance::<\\w+>': nnd}
            ip = Interp(mir, T, EXTRA, uf)
            A, B = list(polys['A']), list(polys['B'])
            outs = ip.call_fn(fn, [('euclidean',), Ref(lambda A=A: A), Ref(lambda B=B: B)], z3.BoolVal(True))
            npaths += len(outs)
            N = lambda a, b: nnd(None, [[[('coord', a, 0)]], [[('coord', b, 0)]]])
            cA = rcc(None, [ring('A'), ('coord', 'B', 0)])
            cB = rcc(None, [ring('B'), ('coord', 'A', 0)])
            want = N('A', 'B')
            if nb > 0:
                want = z3.If(cB, zmin([N('A', 'Bh%d' % i) for i in range(nb)]), want)
            if na > 0:
                want = z3.If(cA, zmin([N('B', 'Ah%d' % i) for i in range(na)]), want)
            want = z3.If(I, T.const(0), want)
            mx = getattr(ip, 'max_value', None)
            for v in nn.values():
                assume.append(v >= 0)
                if mx is not None:
                    assume.append(mx >= v)
            bad.append(z3.Not(z3.Or([pc for pc, _ in outs])))
            for pc, r in outs:
                bad.append(z3.And(pc, deref(r) != want))
    st, info, model = check_unsat('polygon_polygon_distance_dispatch', assume + [z3.Or(bad)])
    return dict(theory='Real + Bool; rings opaque; intersects / ring_contains_coord / nearest_neighbour_distance uninterpreted', functions=['Distance<F, &Polygon, &Polygon> for Euclidean'], paths=npaths, status=st, info=info, model=None, replay=('polygon_distance', ''))


@obligation('C07', 'ring_distance_covers_every_vertex', 'nearest_neighbour_distance(g1, g2) for line strings of 2-4 coordinates each: the minimum, over EVERY coordinate of g2, of its distance to the nearest segment of g1 (R-tree nearest-neighbour lookup and the point-segment distance uninterpreted), and over EVERY coordinate of g1 to the nearest segment of g2; each tree is built from all segments of its line string')
def o_nn_structure(mir, tier, seed):
    from mir2smt import SliceIter
    fn = mir.find('geo', r'euclidean::distance::nearest_neighbour_distance')
    T = RealTheory()
    bad, assume, npaths = [], [], 0
    for n1 in (2, 3, 4):
        for n2 in (2, 3, 4):
            size = {'g1': n1, 'g2': n2}
            D = {}

            def lines(ip, d):
                g = d[0][0]
                return SliceIter([('line', g, i) for i in range(size[g] - 1)])

            def points(ip, d):
                g = d[0][0]
                return SliceIter([('point', g, i) for i in range(size[g])])

            def bulk(ip, d):
                return ('tree', tuple(deref(x) for x in d[0]))

            def nearest(ip, d):
                return Enum('Some', [('nearest-in', d[0], deref(d[1]))])

            def dist(ip, d, D=D, n1=n1, n2=n2):
                ne, pt = deref(d[1]), deref(d[2])
                if not (isinstance(ne, tuple) and ne[0] == 'nearest-in' and ne[2] == pt):
                    raise Untranslatable('distance between a point and something that is not its nearest segment')
                key = (ne[1], pt)
                return D.setdefault(key, T.var('d_%d%d_%d' % (n1, n2, len(D))))
            uf = {'re:geo_types::LineString::<\\w+>::lines': lines, 're:geo_types::LineString::<\\w+>::points': points,
                  're:RTree::<.*>::bulk_load': bulk, 're:RTree::<.*>::nearest_neighbor': nearest,
                  're:CachedEnvelope::<.*>::new': lambda ip, d: d[0], 're:<CachedEnvelope<.*> as Deref>::deref': lambda ip, d: d[0],
                  're:<euclidean::Euclidean as (algorithm::)?line_measures::distance::Distance<F, &geo_types::Line<F>, &geo_types::Point<F>>>::distance': dist}
            ip = Interp(mir, T, EXTRA, uf)
            outs = ip.call_fn(fn, [Ref(lambda: ('g1',)), Ref(lambda: ('g2',))], z3.BoolVal(True))
            npaths += len(outs)
            tree = lambda g: ('tree', tuple(('line', g, i) for i in range(size[g] - 1)))
            want_keys = [(tree('g1'), ('point', 'g2', i)) for i in range(n2)] + [(tree('g2'), ('point', 'g1', i)) for i in range(n1)]
            if set(D) != set(want_keys):
                bad.append(z3.BoolVal(True))      # a vertex was never looked up, or was looked up in the wrong tree
                continue
            mx = getattr(ip, 'max_value', None)
            for v in D.values():
                assume.append(v >= 0)
                if mx is not None:
                    assume.append(mx >= v)
            want = zmin([D[k] for k in want_keys])
            bad.append(z3.Not(z3.Or([pc for pc, _ in outs])))
            for pc, r in outs:
                bad.append(z3.And(pc, deref(r) != want))
    st, info, model = check_unsat('ring_distance_covers_every_vertex', assume + [z3.Or(bad)])
    return dict(theory='Real; coordinates and segments opaque tokens; rstar bulk_load / nearest_neighbor and the point-segment distance uninterpreted', functions=['euclidean::distance::nearest_neighbour_distance', 'its two fold closures'], paths=npaths, status=st, info=info, model=None, replay=('polygon_distance', ''))


@obligation('C07', 'multi_member_distance_is_min_over_members', 'every macro-generated Euclidean distance impl whose first operand is a MultiPoint / MultiLineString / MultiPolygon / GeometryCollection (40 impls found in the MIR, any second operand except the Geometry enum): the minimum over ALL members (0-3) of the member-to-operand distance, in iteration order, nothing else (the symmetric_distance_impl! instances among them forward once, operands exchanged); and every impl whose second operand is the Geometry enum (11 impls) forwards to the impl for the wrapped value with the operands in the same order, for each of the 10 variants [the nested distances uninterpreted, F::max_value() above all of them]')
def o_multi_distance(mir, tier, seed):
    T = RealTheory()
    D = 'euclidean::distance::<impl at [^>]*>::distance'
    multis = mir.find_all('geo', D, sig=r'_2: &geo_types::(MultiPoint|MultiLineString|MultiPolygon|GeometryCollection)<F>, _3: ')
    multis = [f_ for f_ in multis if '_3: &geo_types::Geometry<F>)' not in f_.text.split(chr(10), 1)[0]]
    enums = mir.find_all('geo', D, sig=r'_2: [^,]*, _3: &geo_types::Geometry<F>\)')
    enums = [f_ for f_ in enums if '_2: &geo_types::Geometry<F>' not in f_.text.split(chr(10), 1)[0]]
    bad, assume, npaths, nfn = [], [], 0, 0
    if len(multis) < 30 or len(enums) < 8:
        bad.append(z3.BoolVal(True))          # the impls were not found: do not pass silently
    for k, fn in enumerate(multis):
        is_gc = 'GeometryCollection<F>, _3' in fn.text.split('\n', 1)[0]
        for n in (0, 1, 2, 3):
            vals = {}

            def dist(ip, d, vals=vals, k=k, n=n):
                a_, b_ = deref(d[-2]), deref(d[-1])
                key = (str(a_), str(b_))
                return vals.setdefault(key, T.var('md_%d_%d_%d' % (k, n, len(vals))))
            uf = {'re:<euclidean::Euclidean as (algorithm::)?line_measures::distance::Distance<.*>>::distance': dist,
                  're:geo_types::GeometryCollection::<\\w+>::iter': lambda ip, d: __import__('mir2smt').SliceIter(deref(d[0])[0])}
            ip = Interp(mir, T, EXTRA, uf)
            members = [[('member', i)] for i in range(n)] if not is_gc else [('member', i) for i in range(n)]
            g = [members]
            outs = ip.call_fn(fn, [('e',), Ref(lambda g=g: g), Ref(lambda: ('other',))], z3.BoolVal(True))
            npaths += len(outs)
            keys = [(str(m_), str(('other',))) for m_ in members]
            swapped = (str(('other',)), str(g))
            if set(vals) == {swapped}:
                # a symmetric_distance_impl! instance: forwards to the impl with the operands exchanged
                bad.append(z3.Not(z3.Or([pc for pc, _ in outs])))
                for pc, r in outs:
                    bad.append(z3.And(pc, deref(r) != vals[swapped]))
                continue
            if set(vals) != set(keys) and not (n == 0 and not vals):
                bad.append(z3.BoolVal(True))
                continue
            mx = getattr(ip, 'max_value', None)
            for v in vals.values():
                assume.append(v >= 0)
                if mx is not None:
                    assume.append(mx >= v)
            want = zmin([vals[k_] for k_ in keys]) if n else mx
            bad.append(z3.Not(z3.Or([pc for pc, _ in outs])))
            for pc, r in outs:
                bad.append(z3.And(pc, deref(r) != want) if want is not None else pc)
        nfn += 1
    for fn in enums:
        for variant in ('Point', 'Line', 'LineString', 'Polygon', 'MultiPoint', 'MultiLineString', 'MultiPolygon', 'GeometryCollection', 'Rect', 'Triangle'):
            calls = []

            def dist(ip, d, calls=calls):
                calls.append((deref(d[-2]), deref(d[-1])))
                return T.var('fwd')
            ip = Interp(mir, T, EXTRA, {'re:<euclidean::Euclidean as (algorithm::)?line_measures::distance::Distance<.*>>::distance': dist})
            outs = ip.call_fn(fn, [('e',), Ref(lambda: ('origin',)), Ref(lambda variant=variant: Enum(variant, [('inner', variant)]))], z3.BoolVal(True))
            npaths += len(outs)
            if not (len(outs) == 1 and calls == [(('origin',), ('inner', variant))]):
                bad.append(z3.BoolVal(True))
        nfn += 1
    st, info, model = check_unsat('multi_member_distance_is_min_over_members', assume + [z3.Or(bad)])
    info['impls_checked'] = nfn
    return dict(theory='Real; members opaque, nested distances uninterpreted', functions=['%d macro-generated Distance impls for Multi* / GeometryCollection first operands' % len(multis), '%d Distance impls with a Geometry second operand' % len(enums)], paths=npaths, status=st, info=info, model=None, replay=('polygon_distance', ''))


# ---- C08: which two points quick_hull takes as the extremes, and what it recurses on

@obligation('C08', 'quick_hull_extreme_selection', 'quick_hull on 4-6 opaque points, for EVERY pair of indices (i, j) that least_and_greatest_index can return: the point removed as `min` is the one at index i and the one removed as `max` is the one at index j of the ORIGINAL order (whatever the swaps did), both partitions are taken over exactly the remaining points, hull_set is called as (max, min, .) then (min, max, .), and the hull receives max then min (least_and_greatest_index, partition_slice, hull_set uninterpreted; the slice surgery of swap_with_first_and_remove translated)')
def o_qhull(mir, tier, seed):
    from mir2smt import SliceView
    fn = mir.find('geo', r'quick_hull')
    bad, npaths = 0, 0
    detail = []
    for n in (4, 5, 6):
        for i in range(n):
            for j in range(n):
                pts = [('p', k) for k in range(n)]
                base = list(pts)
                events = []

                def part(ip, d, events=events):
                    items = d[0].items()
                    events.append(('partition', tuple(items)))
                    return [SliceView(d[0].base, d[0].start, d[0].end), SliceView(d[0].base, d[0].end, d[0].end)]

                def hs(ip, d, events=events):
                    events.append(('hull_set', deref(d[0]), deref(d[1]), tuple(d[2].items())))
                    return []
                uf = {'re:(utils::)?least_and_greatest_index::<\\w+>': lambda ip, d, i=i, j=j: [i, j],
                      're:(utils::)?partition_slice::<.*>': part, 're:hull_set::<\\w+>': hs,
                      're:<Vec<geo_types::Coord<\\w+>> as Into<geo_types::LineString<\\w+>>>::into': lambda ip, d: [list(d[0])],
                      're:geo_types::LineString::<\\w+>::close': lambda ip, d: []}
                ip = Interp(mir, IntTheory(), EXTRA, uf)
                outs = ip.call_fn(fn, [SliceView(base, 0, n)], z3.BoolVal(True))
                npaths += len(outs)
                ok = len(outs) == 1 and not (isinstance(outs[0][1], tuple) and outs[0][1][0] == 'halted')
                if ok:
                    hull = [deref(x) for x in deref(outs[0][1])[0]]
                    rest = sorted(p for k, p in enumerate(pts) if k not in (i, j))
                    if i != j:
                        mn, mx = pts[i], pts[j]
                        ok = hull == [mx, mn]
                    else:
                        # least == greatest only when all points are equal: any other point serves as max
                        mn = pts[i]
                        ok = len(hull) == 2 and hull[1] == mn and hull[0] in pts and hull[0] != mn
                        mx = hull[0]
                        rest = sorted(p for p in pts if p not in (mn, mx))
                    ok = ok and len(events) == 4 and events[0] == ('partition', events[0][1]) and sorted(events[0][1]) == rest \
                        and events[1][:3] == ('hull_set', mx, mn) and events[2][0] == 'partition' and sorted(events[2][1]) == rest \
                        and events[3][:3] == ('hull_set', mn, mx)
                if not ok:
                    bad += 1
                    detail.append((n, i, j))
    st, info, model = check_unsat('quick_hull_extreme_selection', [z3.BoolVal(bad > 0)])
    if detail:
        info['failing_index_pairs (n, least, greatest)'] = detail[:6]
    return dict(theory='structural (opaque points, every concrete index pair for n = 4, 5, 6; no symbolic branch)', functions=['convex_hull::qhull::quick_hull', 'convex_hull::swap_with_first_and_remove'], paths=npaths, status=st, info=info, model=None, replay=('quick_hull_extremes', ''))


def reduce_max(xs):
    r = xs[0]
    for x in xs[1:]:
        r = z3.If(r >= x, r, x)
    return r


# ---- C01: the named predicates read the matrix by the OGC masks

@obligation('C01', 'named_predicates_match_masks', 'for ANY DE-9IM matrix (nine entries, each F / 0 / 1 / 2): is_disjoint = FF*FF****, is_intersects = its negation, is_within = T*F**F***, is_contains = T*****FF*, is_coveredby = T*F**F*** | *TF**F*** | **FT*F*** | **F*TF***, is_covers = T*****FF* | *T****FF* | ***T**FF* | ****T*FF*, is_touches = FT******* | F**T***** | F***T****, is_equal_topo = T*F**FFF* or the matrix of two empty operands, is_crosses = T*T****** / T*****T** / 0******** for dim A < / > / = dim B = 1, is_overlaps = 1*T***T** for lines, T*T***T** for points or areas, where dim A / dim B are the maxima of row I / column I (row-major II IB IE BI BB BE EI EB EE; T = not F)')
def o_masks(mir, tier, seed):
    IM = r'intersection_matrix::<impl at [^>]*>::'
    T = IntTheory()
    pos = ['Inside', 'OnBoundary', 'Outside']
    dimn = ['Empty', 'ZeroDimensional', 'OneDimensional', 'TwoDimensional']
    m = {(r, c): z3.Int('im_%s_%s' % (r, c)) for r in pos for c in pos}
    dom = [z3.And(v >= 0, v <= 3) for v in m.values()]
    order = [(r, c) for r in pos for c in pos]

    def mask(spec):
        cs = []
        for ch, rc in zip(spec, order):
            if ch == 'T':
                cs.append(m[rc] != 0)
            elif ch == 'F':
                cs.append(m[rc] == 0)
        return z3.And(cs)
    specs = {'is_disjoint': mask('FF*FF****'), 'is_intersects': z3.Not(mask('FF*FF****')), 'is_within': mask('T*F**F***'), 'is_contains': mask('T*****FF*'),
             'is_coveredby': z3.Or([mask(x) for x in ('T*F**F***', '*TF**F***', '**FT*F***', '**F*TF***')]),
             'is_covers': z3.Or([mask(x) for x in ('T*****FF*', '*T****FF*', '***T**FF*', '****T*FF*')]),
             'is_touches': z3.Or([mask(x) for x in ('FT*******', 'F**T*****', 'F***T****')])}

    def row(ip, d):
        return ('row', deref(d[1]).variant)

    def cell(ip, d):
        from mir2smt import SymEnum
        return SymEnum(m[(deref(d[0])[1], deref(d[1]).variant)], dimn)
    extra = dict(EXTRA)
    extra[r'IntersectionMatrix::is_disjoint'] = ('geo', IM + 'is_disjoint')
    uf = {'re:<LocationArray<LocationArray<Dimensions>> as Index<CoordPos>>::index': row, 're:<LocationArray<Dimensions> as Index<CoordPos>>::index': cell}
    # the dimension-dependent ones: dim(A) = max of row I, dim(B) = max of column I (as JTS / OGC define them on the matrix)
    dA = reduce_max([m[('Inside', c)] for c in pos])
    dB = reduce_max([m[(r, 'Inside')] for r in pos])
    II, IE, EI = m[('Inside', 'Inside')], m[('Inside', 'Outside')], m[('Outside', 'Inside')]
    specs['is_crosses'] = z3.If(dA < dB, z3.And(II != 0, IE != 0), z3.If(dA > dB, z3.And(II != 0, EI != 0), z3.And(dA == 2, dB == 2, II == 1)))
    specs['is_overlaps'] = z3.If(z3.And(dA == 2, dB == 2), z3.And(II == 2, IE != 0, EI != 0),
                                 z3.If(z3.Or(z3.And(dA == 1, dB == 1), z3.And(dA == 3, dB == 3)), z3.And(II != 0, IE != 0, EI != 0), z3.BoolVal(False)))
    empty_disjoint = z3.And([m[rc] == (3 if rc == ('Outside', 'Outside') else 0) for rc in order])
    specs['is_equal_topo'] = z3.Or(empty_disjoint, mask('T*F**FFF*'))
    uf['re:IntersectionMatrix::empty_disjoint'] = lambda ip, d: ('empty-disjoint',)
    uf['re:<&IntersectionMatrix as PartialEq>::eq'] = lambda ip, d: empty_disjoint
    bad, npaths = [], 0
    for name, want in specs.items():
        ip = Interp(mir, T, extra, uf)
        ip.max_steps = 200000
        outs = ip.call_fn(mir.find('geo', IM + name), [Ref(lambda: [('matrix',)])], z3.BoolVal(True))
        npaths += len(outs)
        c = z3.And(dom)
        bad.append(z3.And(c, z3.Not(z3.Or([pc for pc, _ in outs]))))
        for pc, r in outs:
            r = deref(r)
            bad.append(z3.And(c, pc, (z3.BoolVal(r) if isinstance(r, bool) else r) != want))
    st, info, model = check_unsat('named_predicates_match_masks', [z3.Or(bad)])
    return dict(theory='Int (matrix entries as 0..3), all 4^9 matrices symbolically', functions=['IntersectionMatrix::{is_disjoint, is_intersects, is_within, is_contains, is_coveredby, is_covers, is_touches, is_equal_topo, is_crosses, is_overlaps}'], paths=npaths, status=st, info=info, model=None, replay=('matrix_predicates', ''))


# ---- C01: two units of the relate graph - the mod-2 boundary rule at a node, the angular order of edge ends

@obligation('C01', 'boundary_node_mod2_rule', 'GeometryGraph::insert_boundary_point, whatever the node\'s current label on this operand (none / Inside / OnBoundary / Outside): a point that was already a boundary point becomes Inside (an even number of line ends is not boundary), in every other case it becomes OnBoundary; the label is written for this operand\'s own index (node lookup and the Label accessors uninterpreted)')
def o_mod2(mir, tier, seed):
    fn = mir.find('geo', r'geometry_graph::<impl at [^>]*>::insert_boundary_point')
    bad, npaths = 0, 0
    for prev in (None, 'Inside', 'OnBoundary', 'Outside'):
        for arg in (0, 1):
            events = []

            def position(ip, d, prev=prev, events=events):
                events.append(('position', d[1], deref(d[2]).variant if isinstance(deref(d[2]), Enum) else d[2]))
                return Enum('Some', [Enum(prev)]) if prev else Enum('None')

            def set_on(ip, d, events=events):
                events.append(('set_on_position', d[0], d[1], deref(d[2]).variant))
                return []
            uf = {'re:GeometryGraph::<.*>::add_node_with_coordinate': lambda ip, d: ('node', d[1]),
                  're:CoordNode::<\\w+>::label_mut': lambda ip, d: ('label-of', d[0]),
                  're:Label::position': position, 're:Label::set_on_position': set_on}
            ip = Interp(mir, IntTheory(), EXTRA, uf)
            graph = [arg, 'rest-of-graph']
            outs = ip.call_fn(fn, [Ref(lambda graph=graph: graph), ('the-coord',)], z3.BoolVal(True))
            npaths += len(outs)
            want = 'Inside' if prev == 'OnBoundary' else 'OnBoundary'
            lab = ('label-of', ('node', ('the-coord',)))
            ok = len(outs) == 1 and events == [('position', arg, 'On'), ('set_on_position', lab, arg, want)]
            if not ok:
                bad += 1
    st, info, model = check_unsat('boundary_node_mod2_rule', [z3.BoolVal(bad > 0)])
    return dict(theory='structural (every previous label x both operand indices, concretely)', functions=['GeometryGraph::insert_boundary_point', 'GeometryGraph::determine_boundary'], paths=npaths, status=st, info=info, model=None, replay=('relate_units', ''))


@obligation('C01', 'edge_end_order_is_quadrant_then_robust_orientation', 'EdgeEndKey::compare_direction for ANY two edge ends: Equal when the direction vectors are equal; otherwise decided by the quadrants when both are known and differ; otherwise EXACTLY the robust kernel\'s orient2d(other.p0, other.p1, self.p1): Clockwise -> Less, CounterClockwise -> Greater, Collinear -> Equal (no floating-point cross product of its own)')
def o_edge_end(mir, tier, seed):
    fn = mir.find('geo', r'edge_end::<impl at [^>]*>::compare_direction')
    T = RealTheory()
    bad, npaths = [], 0
    for has1 in (True, False):
        for has2 in (True, False):
            q1, q2 = z3.Int('q1'), z3.Int('q2')
            keys = []
            for nm, has, q in (('s', has1, q1), ('o', has2, q2)):
                keys.append([coord(T, nm + '0'), coord(T, nm + '1'), coord(T, nm + 'd'), Enum('Some', [q]) if has else Enum('None')])
            calls = []
            o_cw, o_ccw = z3.Bool('orient_cw'), z3.Bool('orient_ccw')

            def orient(ip, d, pc, calls=calls):
                calls.append((pc, [deref(x) for x in d]))
                return ('fork', [(o_cw, Enum('Clockwise')), (z3.And(z3.Not(o_cw), o_ccw), Enum('CounterClockwise')), (z3.And(z3.Not(o_cw), z3.Not(o_ccw)), Enum('Collinear'))])
            orient.wants_pc = True
            ip = Interp(mir, T, EXTRA, {'re:<<F as GeoNum>::Ker as (algorithm::)?kernels::Kernel<F>>::orient2d': orient})
            outs = ip.call_fn(fn, [Ref(lambda k=keys[0]: k), Ref(lambda k=keys[1]: k)], z3.BoolVal(True))
            npaths += len(outs)
            s_, o_ = keys
            same = z3.And(s_[2][0] == o_[2][0], s_[2][1] == o_[2][1])
            code = {'Less': -1, 'Equal': 0, 'Greater': 1}
            by_orient = z3.If(o_cw, -1, z3.If(o_ccw, 1, 0))
            if has1 and has2:
                want = z3.If(same, 0, z3.If(q1 > q2, 1, z3.If(q1 < q2, -1, by_orient)))
            else:
                want = z3.If(same, 0, by_orient)
            bad.append(z3.Not(z3.Or([pc for pc, _ in outs])))
            for pc, r in outs:
                r = deref(r)
                if not (isinstance(r, Enum) and r.variant in code):
                    bad.append(pc)
                else:
                    bad.append(z3.And(pc, want != code[r.variant]))
            for pc, args in calls:
                right = z3.And([a == b for x, y in zip(args, [o_[0], o_[1], s_[1]]) for a, b in zip(x, y)])
                bad.append(z3.And(pc, z3.Not(right)))
    st, info, model = check_unsat('edge_end_order_is_quadrant_then_robust_orientation', [z3.Or(bad)])
    return dict(theory='Real + Int (quadrants as their declaration order); orient2d of the robust kernel uninterpreted (three-valued)', functions=['EdgeEndKey::compare_direction'], paths=npaths, status=st, info=info, model=None, replay=('relate_units', ''))


@obligation('C08', 'hull_set_recursion_step', 'one level of quick_hull\'s recursion hull_set(a, b, set, hull) for sets of 0-4 points with ANY integer coordinates: nothing for an empty set, the point itself for a singleton; otherwise the point f it moves to the hull maximises the signed distance from line a-b (ties: the last one, as std max_by), it recurses on (f, b) then (a, f) over exactly the other points, and pushes f between the two recursive calls (partition_slice and the recursive calls uninterpreted; each path re-executed from scratch)')
def o_hull_set(mir, tier, seed):
    from mir2smt import SliceView
    fn = mir.find('geo', r'hull_set')
    T = IntTheory()
    bad, npaths = [], 0
    for n in (0, 1, 2, 3, 4):
        a, b = coord(T, 'a'), coord(T, 'b')
        cs = [coord(T, 'p%d_' % i) for i in range(n)]
        state = {}

        def make_args(state=state, cs=cs, a=a, b=b, n=n):
            state['events'], state['hull'] = [], []
            state['base'] = [list(c) for c in cs]
            return [list(a), list(b), SliceView(state['base'], 0, n), Ref(lambda: state['hull'])]

        def part(ip, d, state=state):
            clo = deref(d[1])
            state['events'].append(('partition', [list(x) for x in d[0].items()], [deref(f) for f in clo.fields]))
            return [SliceView(d[0].base, d[0].start, d[0].end), SliceView(d[0].base, d[0].end, d[0].end)]

        def rec(ip, d, state=state):
            state['events'].append(('hull_set', deref(d[0]), deref(d[1]), [list(x) for x in d[2].items()], len(deref(d[3]))))
            return []

        def collect(state=state):
            return (list(state['events']), [list(x) for x in state['hull']])
        ip = Interp(mir, T, EXTRA, {'re:(utils::)?partition_slice::<.*>': part, 're:hull_set::<\\w+>': rec})
        results = ip.explore(fn, make_args, collect)
        npaths += len(results)
        same = lambda u, v: len(u) == len(v) and all(x.eq(y) for x, y in zip(u, v))
        covered = []
        for pc, val, (events, hull) in results:
            covered.append(pc)
            if isinstance(val, tuple) and val and val[0] == 'halted':
                bad.append(pc)
                continue
            if n == 0:
                ok = not events and not hull
            elif n == 1:
                ok = not events and len(hull) == 1 and same(hull[0], cs[0])
            else:
                f = [i for i in range(n) if len(hull) == 1 and same(hull[0], cs[i])]
                ok = len(f) == 1 and len(events) == 4
                if ok:
                    f = f[0]
                    rest = [cs[i] for i in range(n) if i != f]
                    perm = lambda items: len(items) == len(rest) and all(sum(1 for y in items if same(x, y)) == sum(1 for y in rest if same(x, y)) for x in rest)
                    e = events
                    ok = e[0][0] == 'partition' and perm(e[0][1]) and e[1][0] == 'hull_set' and same(e[1][1], cs[f]) and same(e[1][2], b) and e[1][4] == 0 \
                        and e[2][0] == 'partition' and perm(e[2][1]) and e[3][0] == 'hull_set' and same(e[3][1], a) and same(e[3][2], cs[f]) and e[3][4] == 1
                    # the partition predicates test against (f, b) and (a, f)
                    flat = lambda caps: [t for c_ in caps for t in (c_ if isinstance(c_, list) else [c_])]
                    ok = ok and same(flat(e[0][2]), cs[f] + b) and same(flat(e[2][2]), a + cs[f])
                    if ok:
                        dist = [(a[1] - b[1]) * (c[0] - a[0]) + (b[0] - a[0]) * (c[1] - a[1]) for c in cs]
                        arg = z3.And([dist[f] >= dist[i] for i in range(n)] + [dist[f] > dist[i] for i in range(f + 1, n)])
                        bad.append(z3.And(pc, z3.Not(arg)))
            if not ok:
                bad.append(pc)
        bad.append(z3.Not(z3.Or(covered)))
    st, info, model = check_unsat('hull_set_recursion_step', [z3.Or(bad)])
    return dict(theory='Int (unbounded coordinates, nonlinear products); one run per path (re-execution), slices modelled as windows on a list', functions=['convex_hull::qhull::hull_set', 'its closures #0, #1', 'convex_hull::swap_with_first_and_remove'], paths=npaths, status=st, info=info, model=None, replay=('quick_hull_extremes', ''))


# ---- C14: how Polygon validation assembles its per-ring and per-pair checks into errors

def canon(v):
    v = deref(v)
    if isinstance(v, Enum):
        return (v.variant,) + tuple(canon(x) for x in v.fields)
    if isinstance(v, list):
        return tuple(canon(x) for x in v)
    return v


@obligation('C14', 'polygon_validation_assembly', 'Polygon::visit_validation for polygons with 0-3 holes, every pattern of empty holes, with the elementary checks (too few points, self-intersection, non-finite coordinate, relate matrices) uninterpreted and switched on one at a time, all together, or not at all: exactly the switched-on violations are reported, each once, in source order, with the ring ROLE being the position of the ring in interiors() (empty holes keep their index) and the coordinate index the position in the ring; an empty polygon reports nothing; the first Err returned by the handler ends the traversal and is returned')
def o_polyval(mir, tier, seed):
    fn = mir.find('geo', r'validation::polygon::<impl at [^>]*>::visit_validation')
    import itertools
    bad, npaths, nruns = 0, 0, 0
    detail = []

    def run_cfg(k, empty, flags, stop_at=None):
        names = ['ext'] + ['h%d' % i for i in range(k)]
        rings = {n: [[('c', n, 0), ('c', n, 1)] if n not in empty else [], ('ring', n)] for n in names}
        rid = lambda r: deref(r)[1][1] if isinstance(deref(r), list) else deref(r)[1]
        events, odd = [], []

        def handler(ip, d):
            events.append(canon(d[1][0] if isinstance(d[1], list) else d[1]))
            if stop_at is not None and len(events) == stop_at:
                return Enum('Err', ['stop'])
            return Enum('Ok', [[]])

        def get(ip, d):
            im, a, b = d[0], deref(d[1]).variant, deref(d[2]).variant
            if im[1] == 'ext' and (a, b) == ('OnBoundary', 'Inside'):
                return Enum('OneDimensional' if ('ext_line', im[2]) in flags else 'Empty')
            same = im[1] == im[2]          # a ring related to itself overlaps itself
            if im[1] != 'ext' and (a, b) == ('Inside', 'Inside'):
                return Enum('TwoDimensional' if same or ('area', im[1], im[2]) in flags else 'Empty')
            if im[1] != 'ext' and (a, b) == ('OnBoundary', 'OnBoundary'):
                return Enum('OneDimensional' if same or ('line', im[1], im[2]) in flags else 'Empty')
            odd.append((im, a, b))
            return Enum('Empty')
        uf = {'re:<geo_types::Polygon<F> as (algorithm::)?dimensions::HasDimensions>::is_empty': lambda ip, d: 'ext' in empty,
              're:<geo_types::LineString<F> as (algorithm::)?dimensions::HasDimensions>::is_empty': lambda ip, d: rid(d[0]) in empty,
              're:geo_types::Polygon::<\\w+>::exterior': lambda ip, d: d[0][0],
              're:geo_types::Polygon::<\\w+>::interiors': lambda ip, d: d[0][1],
              're:(utils::)?check_too_few_points::<\\w+>': lambda ip, d: ('too_few', rid(d[0])) in flags,
              're:(utils::)?linestring_has_self_intersection::<\\w+>': lambda ip, d: ('self_int', rid(d[0])) in flags,
              're:(utils::)?check_coord_is_not_finite::<\\w+>': lambda ip, d: ('nonfinite', deref(d[0])[1], deref(d[0])[2]) in flags,
              're:<geo_types::LineString<F> as Clone>::clone': lambda ip, d: d[0],
              're:geo_types::Polygon::<\\w+>::new': lambda ip, d: ('poly', rid(d[0])),
              're:<geo_types::Polygon<F> as (algorithm::)?relate::Relate<F>>::relate::<.*>': lambda ip, d: ('im', d[0][1], rid(d[1])),
              're:IntersectionMatrix::is_contains': lambda ip, d: ('not_contained', d[0][2]) not in flags,
              're:IntersectionMatrix::get': get,
              're:<Box<dyn FnMut\\(InvalidPolygon\\) -> Result<\\(\\), T>> as FnMut<\\(InvalidPolygon,\\)>>::call_mut': handler}
        ip = Interp(mir, IntTheory(), EXTRA, uf)
        poly = [rings['ext'], [rings[n] for n in names[1:]]]
        outs = ip.call_fn(fn, [Ref(lambda: poly), ('the-handler',)], z3.BoolVal(True))
        want = []
        if 'ext' not in empty:
            for i, n in enumerate(names):
                if n in empty:
                    continue
                role = ('Exterior',) if i == 0 else ('Interior', i - 1)
                if ('too_few', n) in flags:
                    want.append(('TooFewPointsInRing', role))
                if ('self_int', n) in flags:
                    want.append(('SelfIntersection', role))
                for j in (0, 1):
                    if ('nonfinite', n, j) in flags:
                        want.append(('NonFiniteCoord', role, (j,)))
            for i in range(k):
                n = 'h%d' % i
                if n in empty:
                    continue
                if ('not_contained', n) in flags:
                    want.append(('InteriorRingNotContainedInExteriorRing', ('Interior', i)))
                if ('ext_line', n) in flags:
                    want.append(('IntersectingRingsOnALine', ('Exterior',), ('Interior', i)))
                for j in range(i + 1, k):
                    m = 'h%d' % j
                    if ('area', n, m) in flags:
                        want.append(('IntersectingRingsOnAnArea', ('Interior', i), ('Interior', j)))
                    if ('line', n, m) in flags:
                        want.append(('IntersectingRingsOnALine', ('Interior', i), ('Interior', j)))
        stopped = stop_at is not None and len(want) >= stop_at
        if stopped:
            want = want[:stop_at]
        res = canon(outs[0][1]) if len(outs) == 1 else None
        ok = len(outs) == 1 and not odd and events == want and res == (('Err', 'stop') if stopped else ('Ok', ()))
        return ok, len(outs), (k, sorted(empty), sorted(flags), stop_at, events, want, res)

    for k in (0, 1, 2, 3):
        hs = ['h%d' % i for i in range(k)]
        patterns = [set(c) for r in range(k + 1) for c in itertools.combinations(hs, r)] + [{'ext'}]
        for empty in patterns:
            allflags = []
            for n in ['ext'] + hs:
                allflags += [('too_few', n), ('self_int', n), ('nonfinite', n, 0), ('nonfinite', n, 1)]
            for i, n in enumerate(hs):
                allflags += [('not_contained', n), ('ext_line', n)]
                for m in hs[i + 1:]:
                    allflags += [('area', n, m), ('line', n, m)]
            cfgs = [(set(), None), (set(allflags), None)] + [({f}, None) for f in allflags] + [(set(allflags), st) for st in (1, 2, 3, 5)]
            for flags, stop_at in cfgs:
                ok, np_, info_ = run_cfg(k, empty, flags, stop_at)
                nruns += 1
                npaths += np_
                if not ok:
                    bad += 1
                    detail.append(info_)
    st, info, model = check_unsat('polygon_validation_assembly', [z3.BoolVal(bad > 0)])
    info['configurations'] = nruns
    if detail:
        info['first_failing (holes, empty rings, checks switched on, stop_at, reported, expected, result)'] = [str(x)[:600] for x in detail[:3]]
    return dict(theory='structural (every configuration run concretely: no symbolic branch); elementary checks and relate uninterpreted', functions=['Validation for Polygon: visit_validation'], paths=npaths, status=st, info=info, model=None, replay=('polygon_validation', ''))


# ---- C12: which member's interior point a multi-part geometry returns

@obligation('C12', 'interior_point_member_selection_real', 'interior_point of MultiPolygon (0-3 members, each with or without an interior point of its own and an arbitrary scan-segment length): None exactly when no member has one, otherwise the point of the FIRST member of maximal length - always a point some member produced; MultiPoint / MultiLineString (0-3 members): None exactly when there is no centroid (MultiLineString: or no member has a point), otherwise the member point nearest to the centroid (first among ties) [the members\' own interior points, centroid and distances uninterpreted]')
def o_ip_select(mir, tier, seed):
    T = RealTheory()
    IP = r'interior_point::<impl at [^>]*>::interior_point'
    bad, npaths = [], 0
    same = lambda a_, b_: z3.And(a_[0] == b_[0], a_[1] == b_[1])
    # MultiPolygon: maximal segment length
    for n in (0, 1, 2, 3):
        has = [z3.Bool('mp_has_%d_%d' % (n, i)) for i in range(n)]
        pts = [coord(T, 'mp_pt_%d_%d_' % (n, i)) for i in range(n)]
        lens = [T.var('mp_len_%d_%d' % (n, i)) for i in range(n)]

        def member(ip, d, has=has, pts=pts, lens=lens):
            i = deref(d[0])[1]
            return ('fork', [(has[i], Enum('Some', [[[list(pts[i])], lens[i]]])), (z3.Not(has[i]), Enum('None'))])
        ip = Interp(mir, T, EXTRA, {'re:polygon_interior_point_with_segment_length::<\\w+>': member})
        mp = [[('member', i) for i in range(n)]]
        outs = ip.call_fn(mir.find('geo', IP, sig=r'_1: &geo_types::MultiPolygon<T>'), [Ref(lambda mp=mp: mp)], z3.BoolVal(True))
        npaths += len(outs)
        bad.append(z3.Not(z3.Or([pc for pc, _ in outs])))
        anyh = z3.Or(has) if has else z3.BoolVal(False)
        for pc, r in outs:
            r = deref(r)
            if variant_is(r, 'None'):
                bad.append(z3.And(pc, anyh))
                continue
            got = deref(deref(r.fields[0])[0])
            ok = z3.Or([z3.And(has[i], same(got, pts[i]), z3.And([z3.Implies(has[j], lens[i] > lens[j] if j < i else lens[i] >= lens[j]) for j in range(n) if j != i] + [z3.BoolVal(True)])) for i in range(n)] + [z3.BoolVal(False)])
            bad.append(z3.And(pc, z3.Not(ok)))
    # MultiPoint / MultiLineString: nearest to the centroid
    for kind, sig in (('MultiPoint', r'_1: &geo_types::MultiPoint<T>'), ('MultiLineString', r'_1: &geo_types::MultiLineString<T>')):
        for n in (0, 1, 2, 3):
            hasc = z3.Bool('%s_has_centroid_%d' % (kind, n))
            cen = coord(T, '%s_centroid_%d_' % (kind, n))
            has = [z3.Bool('%s_has_%d_%d' % (kind, n, i)) for i in range(n)]
            pts = [coord(T, '%s_pt_%d_%d_' % (kind, n, i)) for i in range(n)]
            dist = [T.var('%s_dist_%d_%d' % (kind, n, i)) for i in range(n)]

            def distance(ip, d, pts=pts, dist=dist):
                c_ = deref(deref(d[1])[0])
                for i, p_ in enumerate(pts):
                    if c_[0].eq(p_[0]) and c_[1].eq(p_[1]):
                        return dist[i]
                raise Untranslatable('distance of an unknown point')

            def member_ip(ip, d, has=has, pts=pts):
                i = deref(d[0])[1]
                return ('fork', [(has[i], Enum('Some', [[list(pts[i])]])), (z3.Not(has[i]), Enum('None'))])
            uf = {'re:<geo_types::%s<T> as (algorithm::)?centroid::Centroid>::centroid' % kind: lambda ip, d, hasc=hasc, cen=cen: ('fork', [(hasc, Enum('Some', [[list(cen)]])), (z3.Not(hasc), Enum('None'))]),
                  're:<euclidean::Euclidean as (algorithm::)?line_measures::distance::Distance<T, .*>>::distance': distance,
                  're:<geo_types::LineString<T> as (algorithm::)?interior_point::InteriorPoint>::interior_point': member_ip}
            ip = Interp(mir, T, EXTRA, uf)
            if kind == 'MultiPoint':
                g = [[[list(pts[i])] for i in range(n)]]
                hasm = [z3.BoolVal(True)] * n
            else:
                g = [[('member', i) for i in range(n)]]
                hasm = has
            outs = ip.call_fn(mir.find('geo', IP, sig=sig), [Ref(lambda g=g: g)], z3.BoolVal(True))
            npaths += len(outs)
            bad.append(z3.Not(z3.Or([pc for pc, _ in outs])))
            anyh = z3.Or(hasm) if n else z3.BoolVal(False)
            for pc, r in outs:
                r = deref(r)
                if variant_is(r, 'None'):
                    bad.append(z3.And(pc, hasc, anyh))
                    continue
                got = deref(deref(r.fields[0])[0])
                ok = z3.And(hasc, z3.Or([z3.And(hasm[i], same(got, pts[i]), z3.And([z3.Implies(hasm[j], dist[i] < dist[j] if j < i else dist[i] <= dist[j]) for j in range(n) if j != i] + [z3.BoolVal(True)])) for i in range(n)] + [z3.BoolVal(False)]))
                bad.append(z3.And(pc, z3.Not(ok)))
    st, info, model = check_unsat('interior_point_member_selection_real', [z3.Or(bad)])
    return dict(theory='Real + Bool; members\' interior points, scan-segment lengths, centroid and distances uninterpreted', functions=['InteriorPoint for MultiPolygon', 'InteriorPoint for MultiPoint', 'InteriorPoint for MultiLineString'], paths=npaths, status=st, info=info, model=None, replay=('interior_point_scan_line', ''))


# ---- C12: the fold that combines the members' closest points

@obligation('C12', 'closest_of_fold_real', 'closest_of over 0-3 members whose own answers are arbitrary (Intersection / SinglePoint / Indeterminate at arbitrary points, distances to the query arbitrary non-negative reals): the FIRST Intersection if there is one; otherwise Indeterminate exactly when no member gave a SinglePoint (in particular for no member at all); otherwise a SinglePoint of minimal distance (the last one among ties) - an Indeterminate member never ends the search or displaces a better answer (each path re-executed from scratch)')
def o_closest_of(mir, tier, seed):
    from mir2smt import SliceIter
    T = RealTheory()
    fn = mir.find('geo', r'closest_of')
    extra = dict(EXTRA)
    extra[r'Closest::<\w+>::best_of_two'] = ('geo', r'types::<impl at [^>]*>::best_of_two')
    bad, npaths = [], 0
    for n in (0, 1, 2, 3):
        kind = [z3.Int('kind_%d_%d' % (n, i)) for i in range(n)]
        pts = [coord(T, 'cp_%d_%d_' % (n, i)) for i in range(n)]
        dist = [T.var('cd_%d_%d' % (n, i)) for i in range(n)]
        dom = [z3.And(k >= 0, k <= 2) for k in kind] + [d >= 0 for d in dist]

        def cp(ip, d, kind=kind, pts=pts):
            i = deref(d[0])[1]
            return ('fork', [(kind[i] == 0, Enum('Intersection', [[list(pts[i])]])), (kind[i] == 1, Enum('SinglePoint', [[list(pts[i])]])), (kind[i] == 2, Enum('Indeterminate'))])

        def distance(ip, d, pts=pts, dist=dist):
            c_ = deref(deref(d[1])[0])
            for i, p_ in enumerate(pts):
                if c_[0].eq(p_[0]) and c_[1].eq(p_[1]):
                    return dist[i]
            raise Untranslatable('distance of an unknown point')
        uf = {'re:<I as IntoIterator>::into_iter': lambda ip, d: d[0], 're:<C as (algorithm::)?closest_point::ClosestPoint<F>>::closest_point': cp,
              're:<euclidean::Euclidean as (algorithm::)?line_measures::distance::Distance<F, geo_types::Point<F>, geo_types::Point<F>>>::distance': distance}
        ip = Interp(mir, T, extra, uf)
        res = ip.explore(fn, lambda n=n: [SliceIter([('member', i) for i in range(n)]), [[T.var('query_x'), T.var('query_y')]]])
        npaths += len(res)
        c = z3.And(dom) if dom else z3.BoolVal(True)
        bad.append(z3.And(c, z3.Not(z3.Or([pc for pc, _, _ in res]))))
        any_int = z3.Or([k == 0 for k in kind]) if kind else z3.BoolVal(False)
        any_sp = z3.Or([k == 1 for k in kind]) if kind else z3.BoolVal(False)
        same = lambda a_, b_: z3.And(a_[0] == b_[0], a_[1] == b_[1])
        for pc, r, _ in res:
            r = deref(r)
            if variant_is(r, 'Indeterminate'):
                ok = z3.And(z3.Not(any_int), z3.Not(any_sp))
            elif variant_is(r, 'Intersection'):
                got = deref(deref(r.fields[0])[0])
                ok = z3.Or([z3.And(kind[i] == 0, z3.And([kind[j] != 0 for j in range(i)] + [z3.BoolVal(True)]), same(got, pts[i])) for i in range(n)] + [z3.BoolVal(False)])
            elif variant_is(r, 'SinglePoint'):
                got = deref(deref(r.fields[0])[0])
                ok = z3.And(z3.Not(any_int), z3.Or([z3.And(kind[i] == 1, same(got, pts[i]),
                                                        z3.And([z3.Implies(kind[j] == 1, dist[i] < dist[j] if j > i else dist[i] <= dist[j]) for j in range(n) if j != i] + [z3.BoolVal(True)])) for i in range(n)] + [z3.BoolVal(False)]))
            else:
                ok = z3.BoolVal(False)
            bad.append(z3.And(c, pc, z3.Not(ok)))
    st, info, model = check_unsat('closest_of_fold_real', [z3.Or(bad)])
    return dict(theory='Real + Int (answer kinds as 0/1/2); the members\' closest_point and the point distances uninterpreted', functions=['closest_point::closest_of', 'Closest::best_of_two'], paths=npaths, status=st, info=info, model=None, replay=('closest_of', ''))


# ---- C12: the scan line polygon interior_point intersects with the polygon

@obligation('C12', 'interior_point_scan_line_avoids_vertices', 'polygon_interior_point_with_segment_length up to the construction of its scan line, for polygons of 3-4 (thorough: 5) coordinates with ANY real coordinates (bounding_rect = the exact bounding box): the scan line is horizontal, spans the bounding box in x, lies within it in y, and - unless every vertex has the same y (a flat polygon) - passes through NO vertex (the sweep and relate that follow are cut)')
def o_scanline(mir, tier, seed):
    from mir2smt import SliceIter
    fn = mir.find('geo', r'polygon_interior_point_with_segment_length')
    T = RealTheory()
    bad, assume, npaths = [], [], 0
    for n in ((3, 4) if tier == 'quick' else (3, 4, 5)):
        cs = [coord(T, 'v%d_%d_' % (n, i)) for i in range(n)]
        mn, mx = coord(T, 'bbmin%d_' % n), coord(T, 'bbmax%d_' % n)
        for k in (0, 1):
            assume += [mn[k] <= c[k] for c in cs] + [mx[k] >= c[k] for c in cs]
            assume += [z3.Or([mn[k] == c[k] for c in cs]), z3.Or([mx[k] == c[k] for c in cs])]
        lines = []

        def line_new(ip, d, pc, lines=lines):
            lines.append((pc, deref(d[0]), deref(d[1])))
            return [deref(d[0]), deref(d[1])]
        line_new.wants_pc = True
        ring = [[list(c) for c in cs]]
        uf = {'re:geo_types::Polygon::<\\w+>::exterior': lambda ip, d, ring=ring: ring,
              're:<geo_types::Polygon<\\w+> as (algorithm::)?bounding_rect::BoundingRect<\\w+>>::bounding_rect': lambda ip, d, mn=mn, mx=mx: Enum('Some', [[list(mn), list(mx)]]),
              're:geo_types::Rect::<\\w+>::min': lambda ip, d: list(d[0][0]), 're:geo_types::Rect::<\\w+>::max': lambda ip, d: list(d[0][1]),
              're:<geo_types::Polygon<\\w+> as (algorithm::)?coords_iter::CoordsIter>::coords_iter': lambda ip, d, cs=cs: SliceIter([list(c) for c in cs]),
              're:geo_types::Line::<\\w+>::new::<.*>': line_new,
              're:<geo_types::Polygon<\\w+> as (algorithm::)?lines_iter::LinesIter<.*>>::lines_iter': lambda ip, d: ('halt', 'sweep')}
        ip = Interp(mir, T, EXTRA, uf)
        ip.max_steps = 400000
        outs = ip.call_fn(fn, [Ref(lambda: ('polygon',))], z3.BoolVal(True))
        npaths += len(outs)
        bad.append(z3.Not(z3.Or([pc for pc, _, _ in lines])))       # every path builds a scan line
        flat = z3.And([c[1] == cs[0][1] for c in cs])
        for pc, a, b in lines:
            ok = z3.And(a[1] == b[1], a[0] == mn[0], b[0] == mx[0], a[1] >= mn[1], a[1] <= mx[1],
                        z3.Or(flat, z3.And([a[1] != c[1] for c in cs])))
            bad.append(z3.And(pc, z3.Not(ok)))
    st, info, model = check_unsat('interior_point_scan_line_avoids_vertices', assume + [z3.Or(bad)])
    return dict(theory='Real (linear); coordinates arbitrary; any / filter_map / min_by modelled with std semantics (first minimum wins), partial_cmp total on the reals', functions=['interior_point::polygon_interior_point_with_segment_length (prefix up to the sweep)', 'its closures #0-#2'], paths=npaths, status=st, info=info, model=None, replay=('interior_point_scan_line', ''))


@obligation('C07', 'distance_dispatch_points_lines_polygons', 'the glue of six Euclidean distance impls, geometry parts opaque, 0-2 holes, 1-3 segments: Point-Polygon (0 if the shell is empty or they intersect, else the minimum over every hole ring and every shell segment), Line-Line (0 if they intersect, else the minimum of the four end-point distances, each to the OTHER line), Line-LineString (minimum over every segment), Line-Polygon (0 if they intersect, else minimum over shell and every hole), LineString-LineString (0 / ring distance), LineString-Polygon (0 / holes when inside the shell / shell) [intersects, ring_contains_coord, the nested distance impls, line_segment_distance, nearest_neighbour_distance uninterpreted; F::max_value() dominates]')
def o_dispatch2(mir, tier, seed):
    from mir2smt import SliceIter
    T = RealTheory()
    bad, assume, npaths = [], [], 0
    D = 'euclidean::distance::<impl at [^>]*>::distance'

    def ident(v):
        v = deref(v)
        if isinstance(v, list) and len(v) == 2 and isinstance(v[1], tuple) and v[1][0] == 'ring':
            return v[1][1]
        if isinstance(v, list) and len(v) == 2 and z3.is_expr(v[0]):
            return str(v[0])
        if isinstance(v, list) and len(v) == 1:
            return ident(v[0])
        if isinstance(v, list) and len(v) == 2:
            return 'L(%s,%s)' % (ident(v[0]), ident(v[1]))
        raise Untranslatable('unidentifiable value %r' % (v,))

    def world(tag):
        vals, inter, cont = {}, {}, {}

        def dist(ip, d):
            key = tuple(sorted((ident(d[-2]), ident(d[-1]))))
            return vals.setdefault(key, T.var('d_%s_%d' % (tag, len(vals))))

        def lsd(ip, d):
            key = tuple(sorted((ident(d[0]), 'L(%s,%s)' % (ident(d[1]), ident(d[2])))))
            return vals.setdefault(key, T.var('d_%s_%d' % (tag, len(vals))))

        def isect(ip, d):
            return inter.setdefault('any', z3.Bool('intersects_' + tag))

        def rcc(ip, d):
            key = (ident(d[0]), ident(d[1]))
            return cont.setdefault(key, z3.Bool('contains_%s_%d' % (tag, len(cont))))
        uf = {'re:<euclidean::Euclidean as (algorithm::)?line_measures::distance::Distance<.*>>::distance': dist,
              're:(geo_types::)?private_utils::line_segment_distance::<.*>': lsd,
              're:(euclidean::distance::)?nearest_neighbour_distance::<\\w+>': dist,
              're:<geo_types::\\w+<F> as (algorithm::)?intersects::Intersects(<.*>)?>::intersects': isect,
              're:(euclidean::distance::)?ring_contains_coord::<\\w+>': rcc,
              're:geo_types::Polygon::<\\w+>::exterior': lambda ip, d: d[0][0],
              're:geo_types::Polygon::<\\w+>::interiors': lambda ip, d: d[0][1],
              're:geo_types::LineString::<\\w+>::lines': lambda ip, d: SliceIter([[a, b] for a, b in zip(deref(d[0])[0][:-1], deref(d[0])[0][1:])]),
              're:geo_types::Line::<\\w+>::start_point': lambda ip, d: [list(deref(d[0])[0])],
              're:geo_types::Line::<\\w+>::end_point': lambda ip, d: [list(deref(d[0])[1])]}
        return vals, inter, cont, uf, dist, lsd, rcc

    def ring(name, n):
        return [[coord(T, '%s_v%d_' % (name, i)) for i in range(n)], ('ring', name)]

    def finish(tag, outs, want, vals, ip):
        mx = getattr(ip, 'max_value', None)
        for v in vals.values():
            assume.append(v >= 0)
            if mx is not None:
                assume.append(mx >= v)
        bad.append(z3.Not(z3.Or([pc for pc, _ in outs])))
        for pc, r in outs:
            bad.append(z3.And(pc, deref(r) != want))
        return len(outs)

    def I(inter, tag):
        return inter.setdefault('any', z3.Bool('intersects_' + tag))
    # Point - Polygon
    for nh in (0, 1, 2):
        for ns in (0, 2, 4):
            tag = 'ptpoly_%d_%d' % (nh, ns)
            vals, inter, cont, uf, dist, lsd, rcc = world(tag)
            ip = Interp(mir, T, EXTRA, uf)
            pt = [coord(T, 'P_' + tag)]
            poly = [ring('S_' + tag, ns), [ring('H%d_%s' % (i, tag), 3) for i in range(nh)]]
            outs = ip.call_fn(mir.find('geo', D, sig=r'_2: &geo_types::Point<F>, _3: &geo_types::Polygon<F>'), [('e',), Ref(lambda pt=pt: pt), Ref(lambda poly=poly: poly)], z3.BoolVal(True))
            cands = [dist(None, [pt, h]) for h in poly[1]] + [lsd(None, [pt[0], a, b]) for a, b in zip(poly[0][0][:-1], poly[0][0][1:])]
            mx = getattr(ip, 'max_value', None)
            want = T.const(0) if ns == 0 else z3.If(I(inter, tag), T.const(0), zmin(cands))
            npaths += finish(tag, outs, want, vals, ip)
    # Line - Line
    tag = 'll'
    vals, inter, cont, uf, dist, lsd, rcc = world(tag)
    ip = Interp(mir, T, EXTRA, uf)
    la, lb = [coord(T, 'A0'), coord(T, 'A1')], [coord(T, 'B0'), coord(T, 'B1')]
    outs = ip.call_fn(mir.find('geo', D, sig=r'_2: &geo_types::Line<F>, _3: &geo_types::Line<F>'), [('e',), Ref(lambda: la), Ref(lambda: lb)], z3.BoolVal(True))
    want = z3.If(I(inter, tag), T.const(0), zmin([dist(None, [[la[0]], lb]), dist(None, [[la[1]], lb]), dist(None, [[lb[0]], la]), dist(None, [[lb[1]], la])]))
    npaths += finish(tag, outs, want, vals, ip)
    # Line - LineString
    for ns in (2, 3, 4):
        tag = 'lls_%d' % ns
        vals, inter, cont, uf, dist, lsd, rcc = world(tag)
        ip = Interp(mir, T, EXTRA, uf)
        la, ls = [coord(T, 'A0' + tag), coord(T, 'A1' + tag)], ring('LS_' + tag, ns)
        outs = ip.call_fn(mir.find('geo', D, sig=r'_2: &geo_types::Line<F>, _3: &geo_types::LineString<F>'), [('e',), Ref(lambda la=la: la), Ref(lambda ls=ls: ls)], z3.BoolVal(True))
        want = zmin([dist(None, [la, [a, b]]) for a, b in zip(ls[0][:-1], ls[0][1:])])
        npaths += finish(tag, outs, want, vals, ip)
    # Line - Polygon, LineString - Polygon
    for nh in (0, 1, 2):
        tag = 'lpoly_%d' % nh
        vals, inter, cont, uf, dist, lsd, rcc = world(tag)
        ip = Interp(mir, T, EXTRA, uf)
        la = [coord(T, 'A0' + tag), coord(T, 'A1' + tag)]
        poly = [ring('S_' + tag, 4), [ring('H%d_%s' % (i, tag), 3) for i in range(nh)]]
        outs = ip.call_fn(mir.find('geo', D, sig=r'_2: &geo_types::Line<F>, _3: &geo_types::Polygon<F>'), [('e',), Ref(lambda la=la: la), Ref(lambda poly=poly: poly)], z3.BoolVal(True))
        want = z3.If(I(inter, tag), T.const(0), zmin([dist(None, [la, r_]) for r_ in [poly[0]] + poly[1]]))
        npaths += finish(tag, outs, want, vals, ip)
        tag = 'lspoly_%d' % nh
        vals, inter, cont, uf, dist, lsd, rcc = world(tag)
        ip = Interp(mir, T, EXTRA, uf)
        ls = ring('LS_' + tag, 3)
        poly = [ring('S_' + tag, 4), [ring('H%d_%s' % (i, tag), 3) for i in range(nh)]]
        outs = ip.call_fn(mir.find('geo', D, sig=r'_2: &geo_types::LineString<F>, _3: &geo_types::Polygon<F>'), [('e',), Ref(lambda ls=ls: ls), Ref(lambda poly=poly: poly)], z3.BoolVal(True))
        want = dist(None, [ls, poly[0]])
        if nh > 0:
            want = z3.If(rcc(None, [poly[0], ls[0][0]]), zmin([dist(None, [ls, h]) for h in poly[1]]), want)
        want = z3.If(I(inter, tag), T.const(0), want)
        npaths += finish(tag, outs, want, vals, ip)
    # LineString - LineString
    tag = 'lsls'
    vals, inter, cont, uf, dist, lsd, rcc = world(tag)
    ip = Interp(mir, T, EXTRA, uf)
    a_, b_ = ring('LSA', 3), ring('LSB', 3)
    outs = ip.call_fn(mir.find('geo', D, sig=r'_2: &geo_types::LineString<F>, _3: &geo_types::LineString<F>'), [('e',), Ref(lambda: a_), Ref(lambda: b_)], z3.BoolVal(True))
    npaths += finish(tag, outs, z3.If(I(inter, tag), T.const(0), dist(None, [a_, b_])), vals, ip)
    st, info, model = check_unsat('distance_dispatch_points_lines_polygons', assume + [z3.Or(bad)])
    return dict(theory='Real + Bool; geometry parts opaque; nested distances symmetric uninterpreted values', functions=['Distance<F,&Point,&Polygon>', 'Distance<F,&Line,&Line>', 'Distance<F,&Line,&LineString>', 'Distance<F,&Line,&Polygon>', 'Distance<F,&LineString,&LineString>', 'Distance<F,&LineString,&Polygon> for Euclidean'], paths=npaths, status=st, info=info, model=None, replay=('polygon_distance', ''))


@obligation('C02', 'contains_point_glue', 'the non-relate Contains impls of areal types, with coordinate_position uninterpreted (three-valued): Polygon.contains(Coord) exactly when the position is Inside; MultiPolygon.contains(Coord) exactly when some member contains it (0-3 members); MultiPolygon.contains(MultiPoint) (0-3 points) is false when either side is empty or a point is Outside, and otherwise true exactly when at least one point is Inside (boundary points allowed) - the DE-9IM mask T*****FF*')
def o_contains_glue(mir, tier, seed):
    from mir2smt import SliceIter
    CN = r'contains::polygon::<impl at [^>]*>::contains'
    T = IntTheory()
    bad, npaths = [], 0
    pos_enum = lambda v: ('fork', [(v == 0, Enum('Outside')), (v == 1, Enum('OnBoundary')), (v == 2, Enum('Inside'))])
    # Polygon contains Coord
    v = z3.Int('pos_poly')
    ip = Interp(mir, T, EXTRA, {'re:<geo_types::Polygon<T> as (algorithm::)?coordinate_position::CoordinatePosition>::coordinate_position': lambda ip, d: pos_enum(v)})
    outs = ip.call_fn(mir.find('geo', CN, sig=r'_1: &geo_types::Polygon<T>, _2: &geo_types::Coord<T>'), [Ref(lambda: ('polygon',)), Ref(lambda: ('query',))], z3.BoolVal(True))
    npaths += len(outs)
    dom = z3.And(v >= 0, v <= 2)
    bad.append(z3.And(dom, z3.Not(z3.Or([pc for pc, _ in outs]))))
    for pc, r in outs:
        r = deref(r)
        bad.append(z3.And(dom, pc, (z3.BoolVal(r) if isinstance(r, bool) else r) != (v == 2)))
    # MultiPolygon contains Coord
    for nm in (0, 1, 2, 3):
        cs = [z3.Bool('member_contains_%d_%d' % (nm, i)) for i in range(nm)]
        uf = {'re:<geo_types::Polygon<T> as (algorithm::)?contains::Contains<geo_types::Coord<T>>>::contains': lambda ip, d, cs=cs: cs[deref(d[0])[1]]}
        ip = Interp(mir, T, EXTRA, uf)
        mpoly = [[('member', i) for i in range(nm)]]
        outs = ip.call_fn(mir.find('geo', CN, sig=r'_1: &geo_types::MultiPolygon<T>, _2: &geo_types::Coord<T>'), [Ref(lambda mpoly=mpoly: mpoly), Ref(lambda: ('query',))], z3.BoolVal(True))
        npaths += len(outs)
        want = z3.Or(cs) if cs else z3.BoolVal(False)
        bad.append(z3.Not(z3.Or([pc for pc, _ in outs])))
        for pc, r in outs:
            r = deref(r)
            bad.append(z3.And(pc, (z3.BoolVal(r) if isinstance(r, bool) else r) != want))
    # MultiPolygon contains MultiPoint
    fn = mir.find('geo', CN, sig=r'_1: &geo_types::MultiPolygon<T>, _2: &geo_types::MultiPoint<T>')
    for np_ in (0, 1, 2, 3):
        for mp_empty in (False, True):
            pv = [z3.Int('pt_pos_%d_%d' % (np_, i)) for i in range(np_)]
            dom = z3.And([z3.And(x >= 0, x <= 2) for x in pv]) if pv else z3.BoolVal(True)
            uf = {'re:<geo_types::MultiPolygon<T> as (algorithm::)?dimensions::HasDimensions>::is_empty': lambda ip, d, e=mp_empty: e,
                  're:geo_types::MultiPoint::<\\w+>::is_empty': lambda ip, d, np_=np_: np_ == 0,
                  're:<geo_types::MultiPolygon<T> as (algorithm::)?coordinate_position::CoordinatePosition>::coordinate_position': lambda ip, d, pv=pv: pos_enum(pv[deref(d[1])[1]])}
            ip = Interp(mir, T, EXTRA, uf)
            res = ip.explore(fn, lambda np_=np_: [Ref(lambda: ('mp',)), Ref(lambda: [[[('pt', i)] for i in range(np_)]])])
            npaths += len(res)
            if mp_empty or np_ == 0:
                want = z3.BoolVal(False)
            else:
                want = z3.And(z3.And([x != 0 for x in pv]), z3.Or([x == 2 for x in pv]))
            bad.append(z3.And(dom, z3.Not(z3.Or([pc for pc, _, _ in res]))))
            for pc, r, _ in res:
                r = deref(r)
                bad.append(z3.And(dom, pc, (z3.BoolVal(r) if isinstance(r, bool) else r) != want))
    st, info, model = check_unsat('contains_point_glue', [z3.Or(bad)])
    return dict(theory='Int (positions as 0/1/2) + Bool; coordinate_position and the members\' own contains uninterpreted', functions=['Contains<Coord> for Polygon', 'Contains<Coord> for MultiPolygon', 'Contains<MultiPoint> for MultiPolygon'], paths=npaths, status=st, info=info, model=None, replay=('position_assembly', ''))


@obligation('C02', 'rect_and_line_position_real', 'over the reals, for ANY coordinates: Rect (min < max on both axes) classifies a query as interior exactly when it is strictly inside on both axes, as boundary (one count) exactly when it is in the closed box but not strictly inside, and contributes nothing otherwise - corners count ONCE; Line (orient2d = exact sign, point_in_rect exact): a zero-length line is its point, otherwise the two end points are boundary (one count), every other point of the segment is interior, nothing else is (each path re-executed from scratch)')
def o_fixed_position(mir, tier, seed):
    T = RealTheory()
    CP = r'algorithm::coordinate_position::<impl at [^>]*>::calculate_coordinate_position'
    bad, npaths = [], 0
    q = coord(T, 'fq_')
    state = {}

    def args_for(shape):
        def make():
            state['inside'], state['count'] = [False], [0]
            return [Ref(lambda: shape), Ref(lambda: list(q)), Ref(lambda: state['inside'][0], lambda v: state['inside'].__setitem__(0, v)),
                    Ref(lambda: state['count'][0], lambda v: state['count'].__setitem__(0, v))]
        return make
    collect = lambda: (state['inside'][0], state['count'][0])
    as_bool = lambda v: z3.BoolVal(v) if isinstance(v, bool) else v
    # Rect
    mn, mx = coord(T, 'rmin_'), coord(T, 'rmax_')
    valid = z3.And(mn[0] < mx[0], mn[1] < mx[1])
    uf = {'re:geo_types::Rect::<\\w+>::min': lambda ip, d: list(mn), 're:geo_types::Rect::<\\w+>::max': lambda ip, d: list(mx)}
    ip = Interp(mir, T, EXTRA, uf)
    res = ip.explore(mir.find('geo', CP, sig=r'_1: &geo_types::Rect<T>'), args_for(('rect',)), collect)
    npaths += len(res)
    closed = z3.And(mn[0] <= q[0], q[0] <= mx[0], mn[1] <= q[1], q[1] <= mx[1])
    strict = z3.And(mn[0] < q[0], q[0] < mx[0], mn[1] < q[1], q[1] < mx[1])
    bad.append(z3.And(valid, z3.Not(z3.Or([pc for pc, _, _ in res]))))
    for pc, _, (ins, cnt) in res:
        bad.append(z3.And(valid, pc, z3.Or(as_bool(ins) != strict, cnt != z3.If(z3.And(closed, z3.Not(strict)), 1, 0))))
    # Line
    a, b = coord(T, 'la_'), coord(T, 'lb_')
    cross = lambda u, v, w: (v[0] - u[0]) * (w[1] - u[1]) - (v[1] - u[1]) * (w[0] - u[0])
    between = lambda lo, hi, x: z3.Or(z3.And(lo <= x, x <= hi), z3.And(hi <= x, x <= lo))

    def orient(ip, d):
        x = cross(deref(d[0]), deref(d[1]), deref(d[2]))
        return ('fork', [(x > 0, Enum('CounterClockwise')), (x < 0, Enum('Clockwise')), (x == 0, Enum('Collinear'))])
    pir = lambda ip, d: z3.And(between(deref(d[1])[0], deref(d[2])[0], deref(d[0])[0]), between(deref(d[1])[1], deref(d[2])[1], deref(d[0])[1]))
    extra = dict(EXTRA)
    extra[r'<geo_types::Line<T> as (algorithm::)?intersects::Intersects<geo_types::Coord<T>>>::intersects'] = ('geo', r'algorithm::intersects::line::<impl at [^>]*>::intersects', r'_1: &geo_types::Line<T>, _2: &geo_types::Coord<T>')
    extra[r'<geo_types::Coord<T> as (algorithm::)?coordinate_position::CoordinatePosition>::calculate_coordinate_position'] = ('geo', CP, r'_1: &geo_types::Coord<T>')
    ip = Interp(mir, T, extra, {'re:<<T as GeoNum>::Ker as (algorithm::)?kernels::Kernel<T>>::orient2d': orient, 're:(super::)?point_in_rect::<\\w+>': pir})
    line = [list(a), list(b)]
    res = ip.explore(mir.find('geo', CP, sig=r'_1: &geo_types::Line<T>'), args_for(line), collect)
    npaths += len(res)
    same = lambda u, v: z3.And(u[0] == v[0], u[1] == v[1])
    degenerate = same(a, b)
    on_seg = z3.And(cross(a, b, q) == 0, between(a[0], b[0], q[0]), between(a[1], b[1], q[1]))
    at_end = z3.Or(same(q, a), same(q, b))
    w_inside = z3.If(degenerate, same(q, a), z3.And(on_seg, z3.Not(at_end)))
    w_count = z3.If(z3.And(z3.Not(degenerate), at_end), 1, 0)
    bad.append(z3.Not(z3.Or([pc for pc, _, _ in res])))
    for pc, _, (ins, cnt) in res:
        bad.append(z3.And(pc, z3.Or(as_bool(ins) != w_inside, cnt != w_count)))
    st, info, model = check_unsat('rect_and_line_position_real', [z3.Or(bad)], timeout_s=60)
    return dict(theory='Real (nonlinear only in the cross product); orient2d and point_in_rect interpreted exactly', functions=['CoordinatePosition for Rect', 'CoordinatePosition for Line', 'CoordinatePosition for Coord', 'Intersects<Coord> for Line'], paths=npaths, status=st, info=info, model=None, replay=('position_assembly', ''))


# ---- C02: how coordinate_position is assembled from ring / member positions

@obligation('C02', 'coordinate_position_assembly', 'with the position of the query relative to each ring / member uninterpreted (three-valued): Polygon (0-3 holes, holes pairwise not overlapping) reports inside / boundary / neither exactly as "inside the shell and outside every hole" / "on the shell or on a hole" / otherwise, nothing for an empty polygon; MultiPolygon (1-3 members) is inside if any member is, and adds ONE boundary count if any member has the query on its boundary; MultiLineString and GeometryCollection add up their members\' counts; the trait method maps (inside flag, boundary count 0-4) to OnBoundary for odd counts, else Inside / Outside (each path re-executed from scratch)')
def o_position_assembly(mir, tier, seed):
    from mir2smt import SliceIter
    CP = r'algorithm::coordinate_position::<impl at [^>]*>::calculate_coordinate_position'
    bad, npaths = [], 0
    T = IntTheory()
    POS = ['Outside', 'OnBoundary', 'Inside']

    def posvar(name):
        v = z3.Int(name)
        return v

    # Polygon
    for nh in (0, 1, 2, 3):
        for empty in (False, True):
            names = ['shell'] + ['h%d' % i for i in range(nh)]
            pv = {n: posvar('pos_%s_%d' % (n, nh)) for n in names}
            dom = [z3.And(v >= 0, v <= 2) for v in pv.values()]
            hs = names[1:]
            valid = [z3.Not(z3.And(pv[a] != 0, pv[b] == 2)) for a in hs for b in hs if a != b]
            state = {}

            def make_args(state=state, names=names):
                state['inside'], state['count'] = [False], [0]
                poly = [('ring', 'shell'), [('ring', n) for n in names[1:]]]
                return [Ref(lambda: poly), Ref(lambda: ('the-query',)), Ref(lambda: state['inside'][0], lambda v: state['inside'].__setitem__(0, v)),
                        Ref(lambda: state['count'][0], lambda v: state['count'].__setitem__(0, v))]

            def rel(ip, d, pv=pv):
                v = pv[d[1][1]]
                return ('fork', [(v == 0, Enum('Outside')), (v == 1, Enum('OnBoundary')), (v == 2, Enum('Inside'))])
            uf = {'re:<geo_types::Polygon<T> as (algorithm::)?dimensions::HasDimensions>::is_empty': lambda ip, d, empty=empty: empty,
                  're:geo_types::Polygon::<\\w+>::exterior': lambda ip, d: d[0][0], 're:geo_types::Polygon::<\\w+>::interiors': lambda ip, d: d[0][1],
                  're:(algorithm::coordinate_position::)?coord_pos_relative_to_ring::<\\w+>': rel}
            ip = Interp(mir, T, EXTRA, uf)
            res = ip.explore(mir.find('geo', CP, sig=r'_1: &geo_types::Polygon<T>'), make_args, lambda state=state: (state['inside'][0], state['count'][0]))
            npaths += len(res)
            in_hole = z3.Or([pv[h] == 2 for h in hs]) if hs else z3.BoolVal(False)
            on_hole = z3.Or([pv[h] == 1 for h in hs]) if hs else z3.BoolVal(False)
            w_inside = z3.And(not empty, pv['shell'] == 2, z3.Not(in_hole), z3.Not(on_hole))
            w_bound = z3.And(not empty, z3.Or(pv['shell'] == 1, z3.And(pv['shell'] == 2, z3.Not(in_hole), on_hole)))
            cond = z3.And(dom + valid)
            bad.append(z3.And(cond, z3.Not(z3.Or([pc for pc, _, _ in res]))))
            for pc, _, (ins, cnt) in res:
                bad.append(z3.And(cond, pc, z3.Or(z3.BoolVal(bool(ins)) != w_inside, z3.If(w_bound, 1, 0) != cnt)))

    # members: MultiPolygon (one count if any member boundary), MultiLineString / GeometryCollection (sum)
    for kind, sig, member_pat in (('mpoly', r'_1: &geo_types::MultiPolygon<T>', 'Polygon'), ('mls', r'_1: &geo_types::MultiLineString<T>', 'LineString'), ('gc', r'_1: &geo_types::GeometryCollection<T>', 'Geometry')):
        for nm in (0, 1, 2, 3):
            mv = [posvar('m_%s_%d_%d' % (kind, nm, i)) for i in range(nm)]
            dom = [z3.And(v >= 0, v <= 2) for v in mv]
            state = {}

            def make_args(state=state, nm=nm):
                state['inside'], state['count'] = [False], [0]
                members = [('member', i) for i in range(nm)]
                return [Ref(lambda: [members]), Ref(lambda: ('the-query',)), Ref(lambda: state['inside'][0], lambda v: state['inside'].__setitem__(0, v)),
                        Ref(lambda: state['count'][0], lambda v: state['count'].__setitem__(0, v))]

            def member(ip, d, pc, argv, mv=mv):
                v = mv[d[0][1]]
                which = ip.choose(3) if getattr(ip, 'replay', False) else None
                if which is None:
                    raise Untranslatable('member model needs re-execution mode')
                if which == 2:
                    argv[2].set(True)
                if which == 1:
                    argv[3].set(deref(argv[3]) + 1)
                return ('fork', [(v == which, [])])
            member.wants_raw = True
            uf = {'re:<geo_types::%s<T> as (algorithm::)?coordinate_position::CoordinatePosition>::calculate_coordinate_position' % member_pat: member,
                  're:<&geo_types::GeometryCollection<T> as IntoIterator>::into_iter': lambda ip, d: SliceIter(deref(d[0])[0])}
            ip = Interp(mir, T, EXTRA, uf)
            res = ip.explore(mir.find('geo', CP, sig=sig), make_args, lambda state=state: (state['inside'][0], state['count'][0]))
            npaths += len(res)
            any_in = z3.Or([v == 2 for v in mv]) if mv else z3.BoolVal(False)
            nb = z3.IntVal(0)
            for v in mv:
                nb = nb + z3.If(v == 1, 1, 0)
            w_cnt = z3.If(nb > 0, 1, 0) if kind == 'mpoly' else nb
            cond = z3.And(dom) if dom else z3.BoolVal(True)
            bad.append(z3.And(cond, z3.Not(z3.Or([pc for pc, _, _ in res]))))
            for pc, _, (ins, cnt) in res:
                bad.append(z3.And(cond, pc, z3.Or(z3.BoolVal(bool(ins)) != any_in, w_cnt != cnt)))

    # the provided method: mod-2 rule over the count
    fn = mir.find('geo', r'algorithm::coordinate_position::CoordinatePosition::coordinate_position')
    for ins in (False, True):
        for cnt in range(5):
            def calc(ip, d, pc, argv, ins=ins, cnt=cnt):
                argv[2].set(ins)
                argv[3].set(cnt)
                return []
            calc.wants_raw = True
            ip = Interp(mir, T, EXTRA, {'re:<Self as (algorithm::)?coordinate_position::CoordinatePosition>::calculate_coordinate_position': calc})
            outs = ip.call_fn(fn, [Ref(lambda: ('geometry',)), Ref(lambda: ('the-query',))], z3.BoolVal(True))
            npaths += len(outs)
            want = 'OnBoundary' if cnt % 2 == 1 else ('Inside' if ins else 'Outside')
            if not (len(outs) == 1 and variant_is(deref(outs[0][1]), want)):
                bad.append(z3.BoolVal(True))
    st, info, model = check_unsat('coordinate_position_assembly', [z3.Or(bad)])
    return dict(theory='Int (positions as 0/1/2) + structural; ring / member positions uninterpreted; holes assumed pairwise non-overlapping (validity)', functions=['CoordinatePosition for Polygon / MultiPolygon / MultiLineString / GeometryCollection: calculate_coordinate_position', 'CoordinatePosition::coordinate_position (provided method)'], paths=npaths, status=st, info=info, model=None, replay=('position_assembly', ''))


# ---- C05: how areas of rings / members are combined

@obligation('C05', 'area_assembly_real', 'for ANY real ring / member areas: Polygon::signed_area (0-3 holes, any hole orientations) = sign(shell) * (|shell| - sum |hole|), unsigned_area = its absolute value; MultiPolygon (0-3 members) signed = sum of the members\' signed areas, unsigned = sum of their absolute values; GeometryCollection sums its members\' signed resp. unsigned areas; Triangle::signed_area for ANY real vertices = half the shoelace determinant (negative for clockwise vertices), unsigned_area its absolute value; Rect = width x height [get_linestring_area, the members\' own areas, Rect::width/height uninterpreted]')
def o_area_assembly(mir, tier, seed):
    A = r'algorithm::area::<impl at [^>]*>::'
    T = RealTheory()
    bad, npaths = [], 0
    zabs = lambda x: z3.If(x >= 0, x, -x)

    def done(outs, want):
        bad.append(z3.Not(z3.Or([pc for pc, _ in outs])))
        for pc, r in outs:
            bad.append(z3.And(pc, deref(r) != want))
        return len(outs)
    for nh in (0, 1, 2, 3):
        areas = {'shell': T.var('area_shell_%d' % nh)}
        for i in range(nh):
            areas['h%d' % i] = T.var('area_h%d_%d' % (i, nh))
        uf = {'re:geo_types::Polygon::<\\w+>::exterior': lambda ip, d: d[0][0], 're:geo_types::Polygon::<\\w+>::interiors': lambda ip, d: d[0][1],
              're:(algorithm::area::)?get_linestring_area::<\\w+>': lambda ip, d, areas=areas: areas[d[0][1]]}
        ip = Interp(mir, T, EXTRA, uf)
        poly = [('ring', 'shell'), [('ring', 'h%d' % i) for i in range(nh)]]
        outs = ip.call_fn(mir.find('geo', A + 'signed_area', sig=r'_1: &geo_types::Polygon<T>'), [Ref(lambda poly=poly: poly)], z3.BoolVal(True))
        mag = zabs(areas['shell'])
        for i in range(nh):
            mag = mag - zabs(areas['h%d' % i])
        npaths += done(outs, z3.If(areas['shell'] < 0, -mag, mag))
    S = T.var('polygon_signed_area')
    ip = Interp(mir, T, EXTRA, {'re:<geo_types::Polygon<T> as (algorithm::)?area::Area<T>>::signed_area': lambda ip, d: S})
    npaths += done(ip.call_fn(mir.find('geo', A + 'unsigned_area', sig=r'_1: &geo_types::Polygon<T>'), [Ref(lambda: ('polygon',))], z3.BoolVal(True)), zabs(S))
    for kind, sig, member in (('MultiPolygon', r'_1: &geo_types::MultiPolygon<T>', 'Polygon'), ('GeometryCollection', r'_1: &geo_types::GeometryCollection<T>', 'Geometry')):
        for nm in (0, 1, 2, 3):
            sa = [T.var('%s_signed_%d_%d' % (kind, nm, i)) for i in range(nm)]
            ua = [T.var('%s_unsigned_%d_%d' % (kind, nm, i)) for i in range(nm)]
            uf = {'re:<geo_types::%s<T> as (algorithm::)?area::Area<T>>::signed_area' % member: lambda ip, d, sa=sa: sa[d[0][1]],
                  're:<geo_types::%s<T> as (algorithm::)?area::Area<T>>::unsigned_area' % member: lambda ip, d, ua=ua: ua[d[0][1]]}
            for meth in ('signed_area', 'unsigned_area'):
                ip = Interp(mir, T, EXTRA, uf)
                g = [[('member', i) for i in range(nm)]]
                outs = ip.call_fn(mir.find('geo', A + meth, sig=sig), [Ref(lambda g=g: g)], z3.BoolVal(True))
                tot = T.const(0)
                for i in range(nm):
                    tot = tot + (sa[i] if meth == 'signed_area' else (zabs(sa[i]) if kind == 'MultiPolygon' else ua[i]))
                npaths += done(outs, tot)
    # Triangle, Rect
    a, b, c = coord(T, 'ta'), coord(T, 'tb'), coord(T, 'tc')
    textra = dict(EXTRA)
    textra[r'<geo_types::Triangle<T> as (algorithm::)?area::Area<T>>::signed_area'] = ('geo', A + 'signed_area', r'_1: &geo_types::Triangle<T>')
    textra[r'<geo_types::Triangle<T> as (algorithm::)?area::Area<T>>::unsigned_area'] = ('geo', A + 'unsigned_area', r'_1: &geo_types::Triangle<T>')
    half_det = ((b[0] - a[0]) * (c[1] - a[1]) - (b[1] - a[1]) * (c[0] - a[0])) / 2
    for meth, want in (('signed_area', half_det), ('unsigned_area', zabs(half_det))):
        ip = Interp(mir, T, textra, {'re:geo_types::Triangle::<\\w+>::to_lines': lambda ip, d: [[list(a), list(b)], [list(b), list(c)], [list(c), list(a)]]})
        outs = ip.call_fn(mir.find('geo', A + meth, sig=r'_1: &geo_types::Triangle<T>'), [Ref(lambda: ('triangle',))], z3.BoolVal(True))
        npaths += done(outs, want)
    W, H = T.var('rect_width'), T.var('rect_height')
    for meth in ('signed_area', 'unsigned_area'):
        ip = Interp(mir, T, EXTRA, {'re:geo_types::Rect::<\\w+>::width': lambda ip, d: W, 're:geo_types::Rect::<\\w+>::height': lambda ip, d: H})
        npaths += done(ip.call_fn(mir.find('geo', A + meth, sig=r'_1: &geo_types::Rect<T>'), [Ref(lambda: ('rect',))], z3.BoolVal(True)), W * H)
    st, info, model = check_unsat('area_assembly_real', [z3.Or(bad)])
    return dict(theory='Real (nonlinear only in the triangle / rect products); ring and member areas uninterpreted reals', functions=['Area for Polygon / MultiPolygon / GeometryCollection / Triangle / Rect: signed_area, unsigned_area'], paths=npaths, status=st, info=info, model=None, replay=('area_assembly', ''))


# ---- C19: the bounding-box fold and the merge of member boxes

@obligation('C19', 'bounding_rect_fold_real', 'get_bounding_rect over 0-4 coordinates with ANY real values: None for no coordinate, otherwise the rectangle from (min x, min y) to (max x, max y) (each path re-executed from scratch; Rect::new uninterpreted - its normalisation is C18\'s); GeometryCollection::bounding_rect over 0-3 members whose own boxes are arbitrary or absent: absent iff all are absent, else the componentwise min / max of the present ones')
def o_bbox(mir, tier, seed):
    from mir2smt import SliceIter
    T = RealTheory()
    bad, npaths = [], 0
    fn = mir.find('geo_types', r'get_bounding_rect')
    zmin2 = lambda a, b: z3.If(a <= b, a, b)
    zmax2 = lambda a, b: z3.If(a >= b, a, b)
    for n in (0, 1, 2, 3, 4):
        cs = [coord(T, 'c%d_%d_' % (n, i)) for i in range(n)]
        uf = {'re:<I as IntoIterator>::into_iter': lambda ip, d: d[0],
              're:<<I as IntoIterator>::IntoIter as IntoIterator>::into_iter': lambda ip, d: d[0],
              're:<C as AsRef<geometry::coord::Coord<T>>>::as_ref': lambda ip, d: d[0],
              're:rect::Rect::<T>::new::<.*>': lambda ip, d: ('rect', deref(d[0]), deref(d[1]))}
        ip = Interp(mir, T, dict(EXTRA, **{r'get_min_max::<\w+>': ('geo_types', r'get_min_max'), r'geometry::coord::Coord::<\w+>::x_y': ('geo_types', r'geometry::coord::<impl at [^>]*>::x_y')}), uf)
        res = ip.explore(fn, lambda cs=cs: [SliceIter([list(c) for c in cs])])
        npaths += len(res)
        bad.append(z3.Not(z3.Or([pc for pc, _, _ in res])))
        for pc, val, _ in res:
            val = deref(val)
            if n == 0:
                if not variant_is(val, 'None'):
                    bad.append(pc)
                continue
            if not variant_is(val, 'Some'):
                bad.append(pc)
                continue
            r = deref(val.fields[0])
            lo, hi = r[1], r[2]
            want = []
            for k in (0, 1):
                mn, mx = cs[0][k], cs[0][k]
                for c in cs[1:]:
                    mn, mx = zmin2(mn, c[k]), zmax2(mx, c[k])
                want += [lo[k] == mn, hi[k] == mx]
            bad.append(z3.And(pc, z3.Not(z3.And(want))))
    # GeometryCollection: merge of the members' boxes
    gfn = mir.find('geo', r'bounding_rect::<impl at [^>]*>::bounding_rect', sig=r'_1: &geo_types::GeometryCollection<T>')
    for nm in (0, 1, 2, 3):
        has = [z3.Bool('has_box_%d_%d' % (nm, i)) for i in range(nm)]
        box = [(coord(T, 'lo_%d_%d_' % (nm, i)), coord(T, 'hi_%d_%d_' % (nm, i))) for i in range(nm)]
        assume_box = [z3.And(lo[0] <= hi[0], lo[1] <= hi[1]) for lo, hi in box]

        def member_box(ip, d, has=has, box=box):
            i = d[0][1]
            return ('fork', [(has[i], Enum('Some', [('rect', list(box[i][0]), list(box[i][1]))])), (z3.Not(has[i]), Enum('None'))])
        uf = {'re:<geo_types::Geometry<T> as (algorithm::)?bounding_rect::BoundingRect<T>>::bounding_rect': member_box,
              're:geo_types::GeometryCollection::<\\w+>::iter': lambda ip, d: SliceIter(deref(d[0])[0]),
              're:geo_types::Rect::<\\w+>::min': lambda ip, d: list(deref(d[0])[1]), 're:geo_types::Rect::<\\w+>::max': lambda ip, d: list(deref(d[0])[2]),
              're:geo_types::Rect::<\\w+>::new::<.*>': lambda ip, d: ('rect', deref(d[0]), deref(d[1]))}
        ip = Interp(mir, T, dict(EXTRA, **{r'bounding_rect_merge::<\w+>': ('geo', r'bounding_rect_merge'), r'(utils::)?partial_min::<\w+>': ('geo', r'partial_min'), r'(utils::)?partial_max::<\w+>': ('geo', r'partial_max')}), uf)
        gc = [[('member', i) for i in range(nm)]]
        outs = ip.call_fn(gfn, [Ref(lambda gc=gc: gc)], z3.BoolVal(True))
        npaths += len(outs)
        cond = z3.And(assume_box) if assume_box else z3.BoolVal(True)
        bad.append(z3.And(cond, z3.Not(z3.Or([pc for pc, _ in outs]))))
        any_box = z3.Or(has) if has else z3.BoolVal(False)
        for pc, val in outs:
            val = deref(val)
            if variant_is(val, 'None'):
                bad.append(z3.And(cond, pc, any_box))
                continue
            r = deref(val.fields[0])
            want = [any_box]
            for k in (0, 1):
                for i in range(nm):
                    want.append(z3.Implies(has[i], z3.And(r[1][k] <= box[i][0][k], r[2][k] >= box[i][1][k])))
                want.append(z3.Or([z3.And(has[i], r[1][k] == box[i][0][k]) for i in range(nm)]))
                want.append(z3.Or([z3.And(has[i], r[2][k] == box[i][1][k]) for i in range(nm)]))
            bad.append(z3.And(cond, pc, z3.Not(z3.And(want))))
    st, info, model = check_unsat('bounding_rect_fold_real', [z3.Or(bad)])
    return dict(theory='Real (linear); coordinates arbitrary; Rect::new uninterpreted', functions=['geo_types::private_utils::get_bounding_rect', 'get_min_max', 'BoundingRect for GeometryCollection', 'bounding_rect_merge', 'utils::partial_min / partial_max'], paths=npaths, status=st, info=info, model=None, replay=('bounding_rect', ''))


# ---- C11: zero-length operands, over the reals

@obligation('C11', 'line_intersection_zero_length_real', 'line_intersection when one operand is a single point (start = end), for ANY real coordinates, with orient2d = the exact sign and the bounding-box tests exact: None exactly when the point is not on the other segment; otherwise the result consists of that point (an improper SinglePoint at it, or a Collinear payload whose two ends are it) - in both operand orders, the other operand possibly zero-length as well')
def o_zero_length(mir, tier, seed):
    T = RealTheory()
    fn = mir.find('geo', r'algorithm::line_intersection::line_intersection')
    cross = lambda u, v, w: (v[0] - u[0]) * (w[1] - u[1]) - (v[1] - u[1]) * (w[0] - u[0])
    between = lambda lo, hi, x: z3.Or(z3.And(lo <= x, x <= hi), z3.And(hi <= x, x <= lo))
    in_box = lambda u, v, w: z3.And(between(u[0], v[0], w[0]), between(u[1], v[1], w[1]))

    def orient(ip, d):
        x = cross(deref(d[0]), deref(d[1]), deref(d[2]))
        return ('fork', [(x > 0, Enum('CounterClockwise')), (x < 0, Enum('Clockwise')), (x == 0, Enum('Collinear'))])

    def boxes_meet(ip, d):
        (a0, a1), (b0, b1) = d[0][1], d[1][1]
        mn = lambda x, y: z3.If(x <= y, x, y)
        mx = lambda x, y: z3.If(x >= y, x, y)
        c_ = z3.And([z3.And(mn(a0[k], a1[k]) <= mx(b0[k], b1[k]), mn(b0[k], b1[k]) <= mx(a0[k], a1[k])) for k in (0, 1)])
        return ('fork', [(c_, True), (z3.Not(c_), False)])

    def box_has(ip, d):
        (a0, a1), c = d[0][1], deref(d[1])
        c_ = in_box(a0, a1, c)
        return ('fork', [(c_, True), (z3.Not(c_), False)])
    extra = dict(EXTRA)
    extra[r'collinear_intersection::<\w+>'] = ('geo', r'collinear_intersection')
    uf = {'re:<RobustKernel as (algorithm::)?kernels::Kernel<F>>::orient2d': orient,
          're:<geo_types::Line<F> as (algorithm::)?bounding_rect::BoundingRect<F>>::bounding_rect': lambda ip, d: ('bbox', [list(deref(d[0])[0]), list(deref(d[0])[1])]),
          're:<geo_types::Rect<F> as (algorithm::)?intersects::Intersects>::intersects': boxes_meet,
          're:<geo_types::Rect<F> as (algorithm::)?intersects::Intersects<geo_types::Coord<F>>>::intersects': box_has,
          're:collinear::<\\w+>': lambda ip, d: Enum('Collinear', [d[0]]), 're:improper::<\\w+>': lambda ip, d: Enum('SinglePoint', [d[0], False]),
          're:proper_intersection::<\\w+>': lambda ip, d: [T.var('proper_x'), T.var('proper_y')]}
    bad, npaths = [], 0
    pt, q0, q1 = coord(T, 'pt_'), coord(T, 's0_'), coord(T, 's1_')
    on_q = z3.And(cross(q0, q1, pt) == 0, in_box(q0, q1, pt))
    same = lambda u, v: z3.And(u[0] == v[0], u[1] == v[1])
    for order in (0, 1):
        ip = Interp(mir, T, extra, uf)
        ip.max_steps = 100000
        point_line, seg = [list(pt), list(pt)], [list(q0), list(q1)]
        outs = ip.call_fn(fn, [point_line, seg] if order == 0 else [seg, point_line], z3.BoolVal(True))
        npaths += len(outs)
        bad.append(z3.Not(z3.Or([pc for pc, _ in outs])))
        for pc, r in outs:
            r = deref(r)
            if variant_is(r, 'None'):
                bad.append(z3.And(pc, on_q))
                continue
            x = deref(r.fields[0])
            if variant_is(x, 'SinglePoint'):
                c_, proper = deref(x.fields[0]), x.fields[1]
                ok = z3.And(on_q, same(c_, pt), z3.BoolVal(proper is False))
            elif variant_is(x, 'Collinear'):
                l = deref(x.fields[0])
                ok = z3.And(on_q, same(deref(l[0]), pt), same(deref(l[1]), pt))
            else:
                ok = z3.BoolVal(False)
            bad.append(z3.And(pc, z3.Not(ok)))
    st, info, model = check_unsat('line_intersection_zero_length_real', [z3.Or(bad)], timeout_s=60)
    return dict(theory='Real (nonlinear: cross products); orient2d, bounding boxes interpreted exactly; proper_intersection uninterpreted', functions=['line_intersection::line_intersection', 'collinear_intersection'], paths=npaths, status=st, info=info, model=None, replay=('line_intersection_zero_length', ''))


@obligation('C11', 'line_intersects_zero_length_real', 'Line.intersects(Line) when one operand is a single point, for ANY real coordinates (orient2d = the exact sign): true exactly when the point lies on the other segment - in both operand orders (this is the agreement of intersects with line_intersection on degenerate operands; the same clause is C02\'s on a grid)')
def o_intersects_zero(mir, tier, seed):
    T = RealTheory()
    fn = mir.find('geo', r'algorithm::intersects::line::<impl at [^>]*>::intersects', sig=r'_1: &geo_types::Line<T>, _2: &geo_types::Line<T>')
    fnc = ('geo', r'algorithm::intersects::line::<impl at [^>]*>::intersects', r'_1: &geo_types::Line<T>, _2: &geo_types::Coord<T>')
    cross = lambda u, v, w: (v[0] - u[0]) * (w[1] - u[1]) - (v[1] - u[1]) * (w[0] - u[0])
    between = lambda lo, hi, x: z3.Or(z3.And(lo <= x, x <= hi), z3.And(hi <= x, x <= lo))

    def orient(ip, d):
        x = cross(deref(d[0]), deref(d[1]), deref(d[2]))
        return ('fork', [(x > 0, Enum('CounterClockwise')), (x < 0, Enum('Clockwise')), (x == 0, Enum('Collinear'))])
    extra = dict(EXTRA)
    extra[r'(super::)?point_in_rect::<\w+>'] = ('geo', r'point_in_rect')
    extra[r'(utils::)?value_in_range::<\w+>'] = ('geo', r'value_in_range')
    extra[r'(utils::)?value_in_between::<\w+>'] = ('geo', r'value_in_between')
    extra[r'<geo_types::Line<T> as (algorithm::)?intersects::Intersects<geo_types::Coord<T>>>::intersects'] = fnc
    bad, npaths = [], 0
    pt, q0, q1 = coord(T, 'ipt_'), coord(T, 'is0_'), coord(T, 'is1_')
    on_q = z3.And(cross(q0, q1, pt) == 0, between(q0[0], q1[0], pt[0]), between(q0[1], q1[1], pt[1]))
    for order in (0, 1):
        pir = lambda ip, d: z3.And(between(deref(d[1])[0], deref(d[2])[0], deref(d[0])[0]), between(deref(d[1])[1], deref(d[2])[1], deref(d[0])[1]))
        ip = Interp(mir, T, extra, {'re:<<T as GeoNum>::Ker as (algorithm::)?kernels::Kernel<T>>::orient2d': orient, 're:(super::)?point_in_rect::<\\w+>': pir})
        ip.max_steps = 400000
        point_line, seg = [list(pt), list(pt)], [list(q0), list(q1)]
        args = [Ref(lambda: point_line), Ref(lambda: seg)] if order == 0 else [Ref(lambda: seg), Ref(lambda: point_line)]
        outs = ip.call_fn(fn, args, z3.BoolVal(True))
        npaths += len(outs)
        bad.append(z3.Not(z3.Or([pc for pc, _ in outs])))
        for pc, r in outs:
            r = deref(r)
            rb = z3.BoolVal(r) if isinstance(r, bool) else r
            bad.append(z3.And(pc, rb != on_q))
    st, info, model = check_unsat('line_intersects_zero_length_real', [z3.Or(bad)], timeout_s=60)
    return dict(theory='Real (nonlinear: cross products); orient2d interpreted exactly', functions=['Intersects<Line> for Line', 'Intersects<Coord> for Line (point_in_rect = the exact box test)'], paths=npaths, status=st, info=info, model=None, replay=('line_intersection_zero_length', ''))


# ---- C11: the homogeneous-coordinates formula of the proper intersection point

@obligation('C11', 'raw_line_intersection_real', 'raw_line_intersection over the reals, for ANY two segments whose supporting lines are not parallel: the returned point lies on BOTH supporting lines (both cross products vanish), i.e. the conditioned homogeneous-coordinates computation is algebraically the exact intersection point, whatever the conditioning midpoint (floating-point rounding, NaN / infinity handling outside)')
def o_rawint(mir, tier, seed):
    fn = mir.find('geo', r'raw_line_intersection')
    T = RealTheory()
    p0, p1, q0, q1 = coord(T, 'p0'), coord(T, 'p1'), coord(T, 'q0'), coord(T, 'q1')
    ip = Interp(mir, T, EXTRA)
    ip.max_steps = 200000
    outs = ip.call_fn(fn, [[list(p0), list(p1)], [list(q0), list(q1)]], z3.BoolVal(True))
    cross = lambda a, b, x: (b[0] - a[0]) * (x[1] - a[1]) - (b[1] - a[1]) * (x[0] - a[0])
    w = (p1[0] - p0[0]) * (q1[1] - q0[1]) - (p1[1] - p0[1]) * (q1[0] - q0[0])
    bad = [z3.Not(z3.Or([pc for pc, _ in outs]))]
    for pc, r in outs:
        r = deref(r)
        if not variant_is(r, 'Some'):
            bad.append(pc)
            continue
        x = deref(r.fields[0])
        bad.append(z3.And(pc, z3.Or(cross(p0, p1, x) != 0, cross(q0, q1, x) != 0)))
    st, info, model = check_unsat('raw_line_intersection_real', [w != 0, z3.Or(bad)], timeout_s=25)
    return dict(theory='Real (nonlinear: rational functions); Float::min / max = the real min / max, is_nan / is_infinite = false', functions=['line_intersection::raw_line_intersection'], paths=len(outs), status=st, info=info, model=None, replay=('raw_line_intersection', ''))


@obligation('C14', 'multipolygon_validation_assembly', 'MultiPolygon::visit_validation for 0-3 members, each member reporting 0-2 errors of its own, every pair overlapping and / or touching along a line or not (all combinations for 2 members; one at a time, all, none for 3): the members\' own errors are forwarded wrapped with the member\'s index, then for every later member j the pair errors (i, j), in source order, each once; the first Err returned by the handler ends everything and is returned [Polygon::visit_validation, relate, matrix accessors uninterpreted]')
def o_mpolyval(mir, tier, seed):
    import itertools
    fn = mir.find('geo', r'multi_polygon::<impl at [^>]*>::visit_validation')
    bad, npaths, nruns, detail = 0, 0, 0, []

    def run_cfg(n, inner, flags, stop_at):
        events = []

        def handler(ip, d):
            events.append(canon(d[1][0] if isinstance(d[1], list) else d[1]))
            if stop_at is not None and len(events) == stop_at:
                return Enum('Err', ['stop'])
            return Enum('Ok', [[]])

        def member_validation(ip, d, pc, argv):
            i = d[0][1]
            for e in inner[i]:
                outs = ip.call_closure(d[1], [('inner-error', i, e)], pc, 1)
                if len(outs) != 1:
                    raise Untranslatable('forwarding closure forked')
                r = deref(outs[0][1])
                if variant_is(r, 'Err'):
                    return r
            return Enum('Ok', [[]])
        member_validation.wants_raw = True

        def get(ip, d):
            im, a, b = d[0], deref(d[1]).variant, deref(d[2]).variant
            same = im[1] == im[2]          # a member related to itself overlaps itself
            if (a, b) == ('Inside', 'Inside'):
                return Enum('TwoDimensional' if same or ('overlap', im[1], im[2]) in flags else 'Empty')
            if (a, b) == ('OnBoundary', 'OnBoundary'):
                return Enum('OneDimensional' if same or ('touch', im[1], im[2]) in flags else 'Empty')
            events.append(('unexpected-matrix-query', a, b))
            return Enum('Empty')
        uf = {'re:Box::<&mut \\{closure@.*\\}>::new': lambda ip, d: d[0],
              're:<geo_types::Polygon<F> as (algorithm::)?validation::Validation>::visit_validation::<T>': member_validation,
              're:<geo_types::Polygon<F> as (algorithm::)?relate::Relate<F>>::relate::<.*>': lambda ip, d: ('im', d[0][1], d[1][1]),
              're:IntersectionMatrix::get': get,
              're:<Box<dyn FnMut\\(InvalidMultiPolygon\\) -> Result<\\(\\), T>> as FnMut<\\(InvalidMultiPolygon,\\)>>::call_mut': handler}
        ip = Interp(mir, IntTheory(), EXTRA, uf)
        mp = [[('member', i) for i in range(n)]]
        outs = ip.call_fn(fn, [Ref(lambda: mp), ('the-handler',)], z3.BoolVal(True))
        want = []
        for i in range(n):
            for e in inner[i]:
                want.append(('InvalidPolygon', (i,), ('inner-error', i, e)))
            for j in range(i + 1, n):
                if ('overlap', i, j) in flags:
                    want.append(('ElementsOverlaps', (i,), (j,)))
                if ('touch', i, j) in flags:
                    want.append(('ElementsTouchOnALine', (i,), (j,)))
        stopped = stop_at is not None and len(want) >= stop_at
        if stopped:
            want = want[:stop_at]
        res = canon(outs[0][1]) if len(outs) == 1 else None
        ok = len(outs) == 1 and events == want and res == (('Err', 'stop') if stopped else ('Ok', ()))
        return ok, len(outs), (n, inner, sorted(flags), stop_at, events, want, res)

    for n in (0, 1, 2, 3):
        pairs = [(i, j) for i in range(n) for j in range(i + 1, n)]
        allflags = [(k, i, j) for (i, j) in pairs for k in ('overlap', 'touch')]
        if n <= 2:
            flagsets = [set(c) for r in range(len(allflags) + 1) for c in itertools.combinations(allflags, r)]
        else:
            flagsets = [set(), set(allflags)] + [{f} for f in allflags]
        inners = [[[] for _ in range(n)], [['a', 'b'][:1 + (i % 2)] for i in range(n)]] + [[(['x'] if i == k else []) for i in range(n)] for k in range(n)]
        for inner in inners:
            for flags in flagsets:
                for stop_at in (None, 1, 2, 4):
                    ok, np_, info_ = run_cfg(n, inner, flags, stop_at)
                    nruns += 1
                    npaths += np_
                    if not ok:
                        bad += 1
                        detail.append(info_)
    st, info, model = check_unsat('multipolygon_validation_assembly', [z3.BoolVal(bad > 0)])
    info['configurations'] = nruns
    if detail:
        info['first_failing (members, own errors, pair flags, stop_at, reported, expected, result)'] = [str(x)[:600] for x in detail[:3]]
    return dict(theory='structural (every configuration run concretely); the members\' own validation, relate and the matrix accessors uninterpreted', functions=['Validation for MultiPolygon: visit_validation', 'its forwarding closure'], paths=npaths, status=st, info=info, model=None, replay=('polygon_validation', ''))


# ---- C06: the ring centroid formula itself, over the reals

@obligation('C06', 'ring_centroid_formula_real', 'CentroidOperation::add_ring for closed rings of 4-6 coordinates with ANY real coordinates and non-zero area A (A = half the shoelace sum, uninterpreted value constrained by that equation): exactly one two-dimensional contribution, weight |A|, whose centre c satisfies the textbook identities 6A c.x = sum (x_i + x_(i+1)) (x_i y_(i+1) - x_(i+1) y_i) and likewise for y - i.e. the shift to the first vertex changes nothing; for a triangle ring c is the mean of the vertices')
def o_ring_centroid(mir, tier, seed):
    from mir2smt import SliceIter
    T = RealTheory()
    C = r'centroid::<impl at geo/src/algorithm/centroid\.rs:44\d:1: [^>]*>::'
    fn = mir.find('geo', C + 'add_ring')
    bad, assume, npaths = [], [], 0

    def lines(ip, d):
        cs = deref(deref(d[0])[0])
        return SliceIter([[cs[i], cs[i + 1]] for i in range(len(cs) - 1)])
    extra = dict(EXTRA)
    extra[r'<geo_types::Line<\w+> as (algorithm::)?map_coords::MapCoords<\w+, \w+>>::map_coords::<.*>'] = ('geo', r'map_coords::<impl at geo/src/algorithm/map_coords\.rs:\d+:1: \d+:61>::map_coords', r'_1: &geo_types::Line<')
    extra[r'geo_types::Line::<\w+>::start_point'] = ('geo_types', r'line::<impl at [^>]*>::start_point')
    extra[r'geo_types::Line::<\w+>::end_point'] = ('geo_types', r'line::<impl at [^>]*>::end_point')
    extra[r'<geo_types::Point<\w+> as (algorithm::)?map_coords::MapCoords<\w+, \w+>>::map_coords::<.*>'] = ('geo', r'map_coords::<impl at geo/src/algorithm/map_coords\.rs:\d+:1: \d+:62>::map_coords', r'_1: &geo_types::Point<')
    for n in ((4, 5) if tier == 'quick' else (4, 5, 6)):
        pts = [coord(T, 'r%d_%d_' % (n, i)) for i in range(n - 1)]
        cs = pts + [pts[0]]
        ring = [[list(p) for p in cs]]
        A = T.var('ring_area_%d' % n)
        shoelace = sum(cs[i][0] * cs[i + 1][1] - cs[i + 1][0] * cs[i][1] for i in range(n - 1))
        assume += [2 * A == shoelace, A != 0]
        rec = []

        def add_centroid(ip, d, pc, rec=rec):
            rec.append((pc, deref(d[1]), deref(d[2]), d[3]))
            return []
        add_centroid.wants_pc = True
        uf = {'re:geo_types::LineString::<\\w+>::lines': lines, 're:(algorithm::area::)?get_linestring_area::<\\w+>': lambda ip, d, A=A: A,
              're:CentroidOperation::<\\w+>::add_centroid': add_centroid,
              're:<geo_types::LineString<\\w+> as (algorithm::)?dimensions::HasDimensions>::dimensions': lambda ip, d: ('halt', 'zero-area ring'),
              're:<geo_types::LineString<\\w+> as Index<usize>>::index': lambda ip, d: deref(d[0])[0][d[1]]}
        ip = Interp(mir, T, extra, uf)
        outs = ip.call_fn(fn, [Ref(lambda: ['op']), Ref(lambda ring=ring: ring)], z3.BoolVal(True))
        npaths += len(outs)
        sx = sum((cs[i][0] + cs[i + 1][0]) * (cs[i][0] * cs[i + 1][1] - cs[i + 1][0] * cs[i][1]) for i in range(n - 1))
        sy = sum((cs[i][1] + cs[i + 1][1]) * (cs[i][0] * cs[i + 1][1] - cs[i + 1][0] * cs[i][1]) for i in range(n - 1))
        bad.append(z3.Not(z3.Or([pc for pc, _, _, _ in rec])))
        for pc, dim, c, w in rec:
            ok = [z3.BoolVal(variant_is(dim, 'TwoDimensional')), 6 * A * c[0] == sx, 6 * A * c[1] == sy, w == z3.If(A >= 0, A, -A)]
            if n == 4:
                ok += [3 * c[0] == pts[0][0] + pts[1][0] + pts[2][0], 3 * c[1] == pts[0][1] + pts[1][1] + pts[2][1]]
            bad.append(z3.And(pc, z3.Not(z3.And(ok))))
    st, info, model = check_unsat('ring_centroid_formula_real', assume + [z3.Or(bad)], timeout_s=20)
    return dict(theory='Real (nonlinear, degree 4); the ring area an uninterpreted value tied to the shoelace sum', functions=['CentroidOperation::add_ring', 'its fold closure', 'MapCoords for Line', 'Line::determinant'], paths=npaths, status=st, info=info, model=None, replay=('centroid_contributions', ''))


# ---- C15: line_locate_point

@obligation('C15', 'line_locate_point_real', 'over the reals: Line::line_locate_point is Some(0) for a zero-length line and otherwise Some(clamp(v.(p-s) / v.v, 0, 1)); in particular a point s + t v with 0 <= t <= 1 is mapped back to exactly t.  LineString::line_locate_point for 1-3 segments with ANY segment lengths, distances to the query and per-segment fractions (uninterpreted): Some(0) when the total length is 0, None when a segment has no fraction, otherwise (length before the FIRST segment of minimal distance + its fraction x its length) / total (each path re-executed from scratch)')
def o_locate(mir, tier, seed):
    from mir2smt import SliceIter
    T = RealTheory()
    bad, assume, npaths = [], [], 0
    extra = dict(EXTRA)
    extra[r'geo_types::Point::<\w+>::dot'] = ('geo_types', r'geometry::point::<impl at [^>]*>::dot')
    extra[r'geo_types::Point::<\w+>::x'] = ('geo_types', r'geometry::point::<impl at [^>]*>::x')
    extra[r'geo_types::Point::<\w+>::y'] = ('geo_types', r'geometry::point::<impl at [^>]*>::y')
    extra[r'geometry::point::Point::<\w+>::x'] = ('geo_types', r'geometry::point::<impl at [^>]*>::x')
    extra[r'geometry::point::Point::<\w+>::y'] = ('geo_types', r'geometry::point::<impl at [^>]*>::y')
    extra[r'<geo_types::Point<\w+> as Sub>::sub'] = ('geo_types', r'geometry::point::<impl at [^>]*>::sub')
    extra[r'<geometry::coord::Coord<\w+> as Sub>::sub'] = ('geo_types', r'geometry::coord::<impl at [^>]*>::sub')
    extra[r'geometry::point::Point::<\w+>::new'] = ('geo_types', r'geometry::point::<impl at [^>]*>::new')
    L = r'line_locate_point::<impl at [^>]*>::line_locate_point'
    s_, e_, p_ = coord(T, 'ls'), coord(T, 'le'), coord(T, 'lp')
    uf = {'re:geo_types::Line::<\\w+>::start_point': lambda ip, d: [list(deref(d[0])[0])],
          're:<geo_types::Coord<\\w+> as Into<geo_types::Point<\\w+>>>::into': lambda ip, d: [d[0]]}
    ip = Interp(mir, T, extra, uf)
    outs = ip.call_fn(mir.find('geo', L, sig=r'_1: &geo_types::Line<T>'), [Ref(lambda: [s_, e_]), Ref(lambda: [p_])], z3.BoolVal(True))
    npaths += len(outs)
    v = [e_[0] - s_[0], e_[1] - s_[1]]
    vsq = v[0] * v[0] + v[1] * v[1]
    dot = v[0] * (p_[0] - s_[0]) + v[1] * (p_[1] - s_[1])
    t = T.var('t_on_line')
    on_line = z3.And(t >= 0, t <= 1, p_[0] == s_[0] + t * v[0], p_[1] == s_[1] + t * v[1])
    bad.append(z3.Not(z3.Or([pc for pc, _ in outs])))
    for pc, r in outs:
        r = deref(r)
        if not variant_is(r, 'Some'):
            bad.append(pc)
            continue
        l = deref(r.fields[0])
        raw = dot / vsq
        clamp = z3.If(raw < 0, 0, z3.If(raw > 1, 1, raw))
        bad.append(z3.And(pc, z3.If(vsq == 0, l != 0, z3.Or(l != clamp, z3.And(on_line, l != t)))))
    # LineString
    fnls = mir.find('geo', L, sig=r'_1: &geo_types::LineString<T>')
    for n in (1, 2, 3):
        lens = [T.var('len_%d_%d' % (n, i)) for i in range(n)]
        dist = [T.var('dist_%d_%d' % (n, i)) for i in range(n)]
        frac = [T.var('frac_%d_%d' % (n, i)) for i in range(n)]
        hasf = [z3.Bool('hasfrac_%d_%d' % (n, i)) for i in range(n)]
        total = T.var('total_%d' % n)
        cond = [x >= 0 for x in lens + dist]
        uf = {'re:geo_types::LineString::<\\w+>::lines': lambda ip, d, n=n: SliceIter([('seg', i) for i in range(n)]),
              're:<geo_types::LineString<T> as (algorithm::)?euclidean_length::EuclideanLength<T>>::euclidean_length': lambda ip, d, total=total: total,
              're:<geo_types::Line<T> as (algorithm::)?euclidean_length::EuclideanLength<T>>::euclidean_length': lambda ip, d, lens=lens: lens[deref(d[0])[1]],
              're:<geo_types::Line<T> as (algorithm::)?euclidean_distance::EuclideanDistance<T, geo_types::Point<T>>>::euclidean_distance': lambda ip, d, dist=dist: dist[deref(d[0])[1]],
              're:<geo_types::Line<T> as (algorithm::)?line_locate_point::LineLocatePoint<T, geo_types::Point<T>>>::line_locate_point':
                  lambda ip, d, frac=frac, hasf=hasf: ('fork', [(hasf[deref(d[0])[1]], Enum('Some', [frac[deref(d[0])[1]]])), (z3.Not(hasf[deref(d[0])[1]]), Enum('None'))])}
        ip = Interp(mir, T, extra, uf)
        res = ip.explore(fnls, lambda: [Ref(lambda: ('linestring',)), Ref(lambda: ('query',))])
        npaths += len(res)
        inf = getattr(ip, 'infinity', None)
        if inf is not None:
            cond += [inf > x for x in dist]
        c = z3.And(cond)
        bad.append(z3.And(c, z3.Not(z3.Or([pc for pc, _, _ in res]))))
        # expected
        best = 0
        want = None
        # first index of minimal distance, expressed as nested Ifs
        def expr_for(k):
            return (sum(lens[:k]) + frac[k] * lens[k]) / total if k else (frac[0] * lens[0]) / total
        is_first_min = lambda k: z3.And([z3.BoolVal(True)] + [dist[k] < dist[j] for j in range(k)] + [dist[k] <= dist[j] for j in range(k + 1, n)])
        all_frac = z3.And(hasf)
        for pc, r, _ in res:
            r = deref(r)
            if variant_is(r, 'None'):
                bad.append(z3.And(c, pc, total != 0, all_frac))
                bad.append(z3.And(c, pc, total == 0))
                continue
            val = deref(r.fields[0])
            okv = z3.If(total == 0, val == 0, z3.And(all_frac, z3.And([z3.Implies(is_first_min(k), val == expr_for(k)) for k in range(n)])))
            bad.append(z3.And(c, pc, z3.Not(okv)))
    st, info, model = check_unsat('line_locate_point_real', assume + [z3.Or(bad)], timeout_s=30)
    return dict(theory='Real (nonlinear); no NaN / infinity in the reals (is_finite = true; T::infinity() an uninterpreted value above every distance)', functions=['LineLocatePoint for Line', 'LineLocatePoint for LineString', 'Point::dot'], paths=npaths, status=st, info=info, model=None, replay=('line_locate_point', ''))


# ---- C19: extremes

@obligation('C19', 'extremes_real', 'Extremes::extremes for geometries whose exterior traversal has 0-3 (thorough: 4) coordinates of ANY real value: None exactly when there is none; otherwise each of x_min / y_min / x_max / y_max names the FIRST position of the EXTERIOR traversal (not of the full traversal) attaining that bound, together with the coordinate found there (each path re-executed from scratch)')
def o_extremes(mir, tier, seed):
    from mir2smt import SliceIter
    T = RealTheory()
    fn = mir.find('geo', r'extremes::<impl at [^>]*>::extremes')
    bad, npaths = [], 0
    for n in ((0, 1, 2, 3) if tier == 'quick' else (0, 1, 2, 3, 4)):
        ext = [coord(T, 'e%d_%d_' % (n, i)) for i in range(n)]
        decoy = [coord(T, 'hole%d_%d_' % (n, i)) for i in range(1)]
        uf = {'re:<G as (algorithm::)?coords_iter::CoordsIter>::exterior_coords_iter': lambda ip, d, ext=ext: SliceIter([list(c) for c in ext]),
              're:<G as (algorithm::)?coords_iter::CoordsIter>::coords_iter': lambda ip, d, ext=ext, decoy=decoy: SliceIter([list(c) for c in decoy + ext])}
        ip = Interp(mir, T, EXTRA, uf)
        ip.max_steps = 100000
        res = ip.explore(fn, lambda: [Ref(lambda: ('geometry',))])
        npaths += len(res)
        bad.append(z3.Not(z3.Or([pc for pc, _, _ in res])))
        for pc, r, _ in res:
            r = deref(r)
            if n == 0:
                if not variant_is(r, 'None'):
                    bad.append(pc)
                continue
            if not variant_is(r, 'Some'):
                bad.append(pc)
                continue
            out = deref(r.fields[0])             # Outcome { x_min, y_min, x_max, y_max }, each Extreme { index, coord }
            conds = []
            for slot, (axis, lower) in enumerate([(0, True), (1, True), (0, False), (1, False)]):
                ex = deref(out[slot])
                idx, cd = deref(ex[0]), deref(ex[1])
                if not isinstance(idx, int) or not (0 <= idx < n):
                    conds.append(z3.BoolVal(False))
                    continue
                v = ext[idx][axis]
                conds += [cd[0] == ext[idx][0], cd[1] == ext[idx][1]]
                for j in range(n):
                    if lower:
                        conds.append(v < ext[j][axis] if j < idx else v <= ext[j][axis])
                    else:
                        conds.append(v > ext[j][axis] if j < idx else v >= ext[j][axis])
            bad.append(z3.And(pc, z3.Not(z3.And(conds))))
    st, info, model = check_unsat('extremes_real', [z3.Or(bad)])
    return dict(theory='Real (linear); coordinates arbitrary; the two traversals uninterpreted (the full traversal carries an extra coordinate in front)', functions=['Extremes for G: CoordsIter (blanket impl)'], paths=npaths, status=st, info=info, model=None, replay=('extremes', ''))


# ---- C05 kernels

@obligation('C05', 'line_determinant_int', 'for ALL integers: Line::determinant() = start.x*end.y - start.y*end.x (the shoelace term)')
def o_linedet(mir, tier, seed):
    T = IntTheory()
    ip = Interp(mir, T, EXTRA)
    fn = mir.find('geo_types', r'line::<impl at [^>]*>::determinant')
    a, b = coord(T, 'a'), coord(T, 'b')
    line = [a, b]
    outs = ip.call_fn(fn, [Ref(lambda: line)], z3.BoolVal(True))
    want = a[0] * b[1] - a[1] * b[0]
    bad = z3.Or([z3.And(pc, val != want) for pc, val in outs] + [z3.Not(z3.Or([pc for pc, _ in outs]))])
    st, info, model = check_unsat('line_determinant_int', [bad])
    return dict(theory='Int (unbounded)', functions=['geo_types::Line::determinant'], paths=len(outs), status=st, info=info, model=model_ints(model, a + b), replay=('line_det_i64', 'ab'))


# ---- C13 matrix algebra

def sym_matrix(T, n):
    m = [[T.var('%s%d%d' % (n, i, j)) for j in range(3)] for i in range(3)]
    m[2] = [T.const(0), T.const(0), T.const(1)]
    return [m]   # AffineTransform is a tuple struct around [[T;3];3]


def mat_entries(t):
    t = deref(t)
    return [deref(t)[0][i][j] for i in range(2) for j in range(3)]


def call_merged_matrix(ip, fn, args):
    """a matrix-valued function with several paths: entries merged into if-then-else terms"""
    outs = ip.call_fn(fn, args, z3.BoolVal(True))
    ents = [mat_entries(v) for _, v in outs]
    merged = ents[-1]
    for (pc, _), e in list(zip(outs, ents))[-2::-1]:
        merged = [z3.If(pc, a, b) for a, b in zip(e, merged)]
    one, zero = ip.T.const(1), ip.T.const(0)
    return [[[merged[0], merged[1], merged[2]], [merged[3], merged[4], merged[5]], [zero, zero, one]]]


def call1(ip, fn, args):
    outs = ip.call_fn(fn, args, z3.BoolVal(True))
    if len(outs) != 1:
        raise Untranslatable('%s: expected one path, got %d' % (fn.name, len(outs)))
    return outs[0][1]


@obligation('C13', 'affine_compose_apply_int', 'for ALL integer matrices a,b and points p: a.compose(&b).apply(p) = b.apply(a.apply(p))')
def o_compose(mir, tier, seed):
    T = IntTheory()
    ip = Interp(mir, T, EXTRA)
    compose, apply_ = mir.find('geo', AFF + 'compose'), mir.find('geo', AFF + 'apply')
    A, B = sym_matrix(T, 'a'), sym_matrix(T, 'b')
    p = coord(T, 'p')
    AB = call1(ip, compose, [Ref(lambda: A), Ref(lambda: B)])
    lhs = call1(ip, apply_, [Ref(lambda: AB), p])
    mid = call1(ip, apply_, [Ref(lambda: A), p])
    rhs = call1(ip, apply_, [Ref(lambda: B), mid])
    # the bottom row of the product must stay (0,0,1)
    bottom = deref(AB)[0][2]
    bad = z3.Or(lhs[0] != rhs[0], lhs[1] != rhs[1], bottom[0] != 0, bottom[1] != 0, bottom[2] != 1)
    st, info, model = check_unsat('affine_compose_apply_int', [bad])
    return dict(theory='Int (unbounded)', functions=['AffineTransform::compose', 'AffineTransform::apply'], paths=1, status=st, info=info,
                model=model_ints(model, mat_entries(A) + mat_entries(B) + p), replay=('compose_apply_i64', 'abp'))


@obligation('C13', 'affine_compose_many_int', 'for ALL integer matrices a, b1..bk (k = 0..3) and points p: a.compose_many(&[b1, .., bk]).apply(p) = bk.apply(.. b1.apply(a.apply(p)) ..) - the slice is composed left to right onto a')
def o_compose_many(mir, tier, seed):
    T = IntTheory()
    extra = dict(EXTRA)
    extra[r'<affine_ops::AffineTransform<\w+> as Default>::default'] = ('geo', r'affine_ops::<impl at [^>]*>::default')
    cm, apply_ = mir.find('geo', AFF + 'compose_many'), mir.find('geo', AFF + 'apply')
    bad, npaths = [], 0
    for k in (0, 1, 2, 3):
        ip = Interp(mir, T, extra)
        A = sym_matrix(T, 'a%d' % k)
        Bs = [sym_matrix(T, 'b%d_%d' % (k, i)) for i in range(k)]
        p = coord(T, 'p%d' % k)
        M = call1(ip, cm, [Ref(lambda A=A: A), Ref(lambda Bs=Bs: Bs)])
        lhs = call1(ip, apply_, [Ref(lambda M=M: M), p])
        cur = call1(ip, apply_, [Ref(lambda A=A: A), p])
        for B in Bs:
            cur = call1(ip, apply_, [Ref(lambda B=B: B), cur])
        npaths += 1
        bad.append(z3.Or(lhs[0] != cur[0], lhs[1] != cur[1]))
    st, info, model = check_unsat('affine_compose_many_int', [z3.Or(bad)])
    return dict(theory='Int (unbounded, nonlinear products of matrix entries)', functions=['AffineTransform::compose_many', 'its fold closure', 'AffineTransform::compose', 'Default for AffineTransform'], paths=npaths, status=st, info=info, model=None, replay=('compose_many_i64', ''))


@obligation('C13', 'affine_identity_neutral_int', 'for ALL integer matrices a: identity().compose(&a) = a = a.compose(&identity()), identity().apply(p) = p, and is_identity() holds exactly for the identity matrix')
def o_identity(mir, tier, seed):
    T = IntTheory()
    ip = Interp(mir, T, EXTRA)
    compose, apply_, ident, isid = [mir.find('geo', AFF + n) for n in ('compose', 'apply', 'identity', 'is_identity')]
    A = sym_matrix(T, 'a')
    p = coord(T, 'p')
    I = call1(ip, ident, [])
    IA = call1(ip, compose, [Ref(lambda: I), Ref(lambda: A)])
    AI = call1(ip, compose, [Ref(lambda: A), Ref(lambda: I)])
    ip_ = call1(ip, apply_, [Ref(lambda: I), p])
    bad = [x != y for x, y in zip(mat_entries(IA), mat_entries(A))] + [x != y for x, y in zip(mat_entries(AI), mat_entries(A))] + [ip_[0] != p[0], ip_[1] != p[1]]
    outs = ip.call_fn(isid, [Ref(lambda: A)], z3.BoolVal(True))
    e = mat_entries(A)
    is_id = z3.And(e[0] == 1, e[1] == 0, e[2] == 0, e[3] == 0, e[4] == 1, e[5] == 0)
    for pc, val in outs:
        v = val if not isinstance(val, bool) else z3.BoolVal(val)
        bad.append(z3.And(pc, v != is_id))
    st, info, model = check_unsat('affine_identity_neutral_int', [z3.Or(bad)])
    return dict(theory='Int (unbounded)', functions=['AffineTransform::identity', 'compose', 'apply', 'is_identity'], paths=len(outs), status=st, info=info,
                model=model_ints(model, mat_entries(A) + p), replay=('identity_i64', 'ap'))


@obligation('C13', 'affine_translate_scale_int', 'for ALL integers: translate(dx,dy).apply(p) = p+(dx,dy); scale(fx,fy,o).apply(p) = o + (p-o)*(fx,fy); new(a,b,xoff,d,e,yoff) stores the entries in that order and the accessors a/b/xoff/d/e/yoff return them')
def o_trsc(mir, tier, seed):
    T = IntTheory()
    ip = Interp(mir, T, EXTRA)
    apply_, translate, scale, new = [mir.find('geo', AFF + n) for n in ('apply', 'translate', 'scale', 'new')]
    p, o = coord(T, 'p'), coord(T, 'o')
    dx, dy, fx, fy = T.var('dx'), T.var('dy'), T.var('fx'), T.var('fy')
    tr = call1(ip, translate, [dx, dy])
    tp = call1(ip, apply_, [Ref(lambda: tr), p])
    sc = call1(ip, scale, [fx, fy, o])
    sp = call1(ip, apply_, [Ref(lambda: sc), p])
    vs = [T.var('n%d' % i) for i in range(6)]
    nw = call1(ip, new, vs)
    bad = [tp[0] != p[0] + dx, tp[1] != p[1] + dy,
           sp[0] != o[0] + (p[0] - o[0]) * fx, sp[1] != o[1] + (p[1] - o[1]) * fy]
    bad += [x != y for x, y in zip(mat_entries(nw), vs)]
    bt = deref(nw)[0][2]
    bad += [bt[0] != 0, bt[1] != 0, bt[2] != 1]
    for k, name in enumerate(('a', 'b', 'xoff', 'd', 'e', 'yoff')):
        acc = call1(ip, mir.find('geo', AFF + name), [Ref(lambda: nw)])
        bad.append(acc != vs[k])
    st, info, model = check_unsat('affine_translate_scale_int', [z3.Or(bad)])
    return dict(theory='Int (unbounded)', functions=['AffineTransform::translate', 'scale', 'new', 'apply', 'a', 'b', 'xoff', 'd', 'e', 'yoff'], paths=1, status=st, info=info,
                model=model_ints(model, p + o + [dx, dy, fx, fy]), replay=('translate_scale_i64', 'po'))


@obligation('C13', 'affine_inverse_real', 'for ALL real matrices m: inverse() is None exactly when a*e - b*d = 0, otherwise m.compose(&inv) and inv.compose(&m) are the identity (exact arithmetic; float rounding is outside this clause)')
def o_inverse(mir, tier, seed):
    T = RealTheory()
    ip = Interp(mir, T, EXTRA)
    inverse, compose = mir.find('geo', AFF + 'inverse'), mir.find('geo', AFF + 'compose')
    A = sym_matrix(T, 'a')
    e = mat_entries(A)
    det = e[0] * e[4] - e[1] * e[3]
    outs = ip.call_fn(inverse, [Ref(lambda: A)], z3.BoolVal(True))
    bad = [z3.Not(z3.Or([pc for pc, _ in outs]))]
    for pc, val in outs:
        if variant_is(val, 'None'):
            bad.append(z3.And(pc, det != 0))
        elif variant_is(val, 'Some'):
            inv = val.fields[0]
            bad.append(z3.And(pc, det == 0))
            for (x, y) in ((A, inv), (inv, A)):
                prod = call1(ip, compose, [Ref(lambda x=x: x), Ref(lambda y=y: y)])
                pe = mat_entries(prod)
                ident = [1, 0, 0, 0, 1, 0]
                bad.append(z3.And(pc, z3.Or([pe[i] != ident[i] for i in range(6)])))
        else:
            raise Untranslatable('inverse returned %r' % (val,))
    st, info, model = check_unsat('affine_inverse_real', [z3.Or(bad)])
    return dict(theory='Real (exact field arithmetic)', functions=['AffineTransform::inverse', 'compose'], paths=len(outs), status=st, info=info,
                model=model_reals(model, e), replay=('inverse_f64', 'a'))


def trig_uf(T, assumptions):
    s, c = T.var('sin_theta'), T.var('cos_theta')
    assumptions.append(s * s + c * c == 1)
    tans = {}

    def to_radians(ip, d):
        return ('radians', d[0])

    def sin_cos(ip, d):
        return [s, c]

    def tan(ip, d):
        key = str(d[0])
        if key not in tans:
            tans[key] = T.var('tan_%d' % len(tans))
        return tans[key]

    def abs_(ip, d):
        return z3.If(d[0] >= 0, d[0], -d[0])
    return {'<U as num_traits::Float>::to_radians': to_radians, '<U as num_traits::Float>::sin_cos': sin_cos,
            '<U as num_traits::Float>::tan': tan, '<U as num_traits::Float>::abs': abs_}, (s, c), tans


@obligation('C13', 'affine_rotate_real', 'for ALL origins o, points p and angles (sin,cos symbolic with sin^2+cos^2=1): rotate(theta,o).apply(p) = o + R(theta)(p-o) with R counter-clockwise, and it preserves squared distance to o')
def o_rotate(mir, tier, seed):
    T = RealTheory()
    assumptions = []
    uf, (s, c), _ = trig_uf(T, assumptions)
    ip = Interp(mir, T, EXTRA, uf)
    rotate, apply_ = mir.find('geo', AFF + 'rotate'), mir.find('geo', AFF + 'apply')
    p, o = coord(T, 'p'), coord(T, 'o')
    theta = T.var('theta')
    rt = call1(ip, rotate, [theta, o])
    rp = call1(ip, apply_, [Ref(lambda: rt), p])
    dx, dy = p[0] - o[0], p[1] - o[1]
    wx, wy = o[0] + c * dx - s * dy, o[1] + s * dx + c * dy
    d2 = (rp[0] - o[0]) * (rp[0] - o[0]) + (rp[1] - o[1]) * (rp[1] - o[1])
    bad = z3.Or(rp[0] != wx, rp[1] != wy, d2 != dx * dx + dy * dy)
    st, info, model = check_unsat('affine_rotate_real', assumptions + [bad])
    return dict(theory='Real; sin_cos(to_radians(theta)) = fresh (s,c) with s^2+c^2=1', functions=['AffineTransform::rotate', 'apply'], paths=1, status=st, info=info,
                model=None, replay=('rotate_f64', ''))


@obligation('C13', 'affine_skew_real', 'for ALL origins o, points p (tan symbolic, snapped to 0 below 2.5e-16 as in the code): skew(xs,ys,o).apply(p) = (p.x + tx*(p.y-o.y), p.y + ty*(p.x-o.x))')
def o_skew(mir, tier, seed):
    T = RealTheory()
    assumptions = []
    uf, _, tans = trig_uf(T, assumptions)
    ip = Interp(mir, T, EXTRA, uf)
    skew, apply_ = mir.find('geo', AFF + 'skew'), mir.find('geo', AFF + 'apply')
    p, o = coord(T, 'p'), coord(T, 'o')
    xs, ys = T.var('xs'), T.var('ys')
    outs = ip.call_fn(skew, [xs, ys, o], z3.BoolVal(True))
    eps = z3.RealVal('2.5000000000000002E-16')
    bad = [z3.Not(z3.Or([pc for pc, _ in outs]))]
    for pc, sk in outs:
        sp = call1(ip, apply_, [Ref(lambda sk=sk: sk), p])
        tv = list(tans.values())
        if len(tv) != 2:
            raise Untranslatable('skew: expected two tan() calls, saw %d' % len(tv))
        snap = lambda t: z3.If(z3.If(t >= 0, t, -t) < eps, z3.RealVal(0), t)
        tx, ty = snap(tv[0]), snap(tv[1])
        bad.append(z3.And(pc, z3.Or(sp[0] != p[0] + tx * (p[1] - o[1]), sp[1] != p[1] + ty * (p[0] - o[0]))))
    st, info, model = check_unsat('affine_skew_real', assumptions + [z3.Or(bad)])
    return dict(theory='Real; tan(to_radians(.)) = fresh symbols', functions=['AffineTransform::skew', 'apply'], paths=len(outs), status=st, info=info, model=None, replay=('skew_f64', ''))


# ---- C13 trait forms: which matrix, about which origin, reaches affine_transform(_mut)

TRAIT_EXTRA = {
    r'<G as rotate::Rotate<T>>::(rotate_around_point(?:_mut)?)': ('geo', r'rotate::<impl at [^>]*>::%s'),
    r'<G as scale::Scale<T>>::(scale_xy(?:_mut)?)': ('geo', r'scale::<impl at [^>]*>::%s'),
    r'<G as scale::Scale<T>>::(scale_around_point(?:_mut)?)(?:::<.*>)?': ('geo', r'scale::<impl at [^>]*>::%s'),
    r'<G as skew::Skew<T>>::(skew_xy(?:_mut)?)': ('geo', r'skew::<impl at [^>]*>::%s'),
    r'<G as skew::Skew<T>>::(skew_around_point(?:_mut)?)(?:::<.*>)?': ('geo', r'skew::<impl at [^>]*>::%s'),
}


def trait_form(mir, module, method, nargs, origin_kind, expected_ctor):
    """Runs `<G as Trait>::method` with G opaque.  origin_kind: 'center' | 'centroid' | 'given' | None.
    expected_ctor(ip, args, origin) -> expected AffineTransform value.  Returns (bad formulas, assumptions, n_paths)."""
    T = RealTheory()
    assumptions = []
    uf_trig, _, _ = trig_uf(T, assumptions)
    records = []
    has_origin = z3.Bool('geometry_has_coordinates')
    rect = [coord(T, 'bbox_min'), coord(T, 'bbox_max')]
    cen = [coord(T, 'centroid')]

    def bounding_rect(ip, d):
        return ('fork', [(has_origin, Enum('Some', [rect])), (z3.Not(has_origin), Enum('None'))])

    def centroid(ip, d):
        return ('fork', [(has_origin, Enum('Some', [cen])), (z3.Not(has_origin), Enum('None'))])

    def ident(ip, d):
        return d[0]

    def record(ip, d, pc):
        records.append((pc, mat_entries(d[1])))
        return 'transformed-geometry'
    record.wants_pc = True

    def clone(ip, d):
        return 'clone-of-self'
    uf = dict(uf_trig)
    uf.update({
        '<G as bounding_rect::BoundingRect<T>>::bounding_rect': bounding_rect,
        '<G as centroid::Centroid>::centroid': centroid,
        're:<I[RP] as Into<Option<geo_types::(Rect|Point)<T>>>>::into': ident,
        're:<G as affine_ops::AffineOps<T>>::affine_transform(_mut)?': record,
        '<G as Clone>::clone': clone,
        're:<T as num_traits::Float>::(to_radians|sin_cos|tan|abs)': None,
    })
    # the trig helpers are registered under U in the constructors and under T nowhere else
    del uf['re:<T as num_traits::Float>::(to_radians|sin_cos|tan|abs)']
    extra = dict(EXTRA)
    extra[r'geo_types::Rect::<\w+>::center'] = ('geo_types', r'rect::<impl at [^>]*>::center')
    extra[r'geo_types::Point::<\w+>::x_y'] = ('geo_types', r'geometry::point::<impl at [^>]*>::x_y')
    ip = Interp(mir, T, extra, uf)
    # nested trait calls are inlined from the same blanket impl
    orig_resolve = ip.resolve

    def resolve(callee, argv, pc, depth):
        for pat, (crate, fpat) in TRAIT_EXTRA.items():
            m = re.fullmatch(pat, callee)
            if m:
                ip.calls.append(callee)
                return ip.call_fn(mir.find(crate, fpat % m.group(1)), argv, pc, depth + 1)
        return orig_resolve(callee, argv, pc, depth)
    ip.resolve = resolve
    fn = mir.find('geo', r'%s::<impl at [^>]*>::%s' % (module, method))
    args = [T.var('arg%d' % i) for i in range(nargs)]
    given = coord(T, 'given_origin')
    g = ['opaque-geometry']
    call_args = [Ref(lambda: g, lambda v: None)] + args
    if origin_kind == 'given':
        call_args.append([given] if module == 'rotate' else given)   # Rotate takes a Point, the others a Coord
    outs = ip.call_fn(fn, call_args, z3.BoolVal(True))
    # expected origin
    if origin_kind == 'center':
        two = T.const(2)
        origin = [(rect[0][0] + rect[1][0]) / two, (rect[0][1] + rect[1][1]) / two]
    elif origin_kind == 'centroid':
        origin = cen[0]
    elif origin_kind == 'given':
        origin = given
    else:
        origin = None
    ip2 = Interp(mir, T, extra, uf)
    want = mat_entries(expected_ctor(ip2, args, origin))
    bad = [z3.And(pc, z3.Or([a != b for a, b in zip(m, want)])) for pc, m in records]
    called = z3.Or([pc for pc, _ in records]) if records else z3.BoolVal(False)
    if origin_kind in ('center', 'centroid'):
        bad.append(z3.And(has_origin, z3.Not(called)))
        bad.append(z3.And(z3.Not(has_origin), called))
    else:
        bad.append(z3.Not(called))
    # at most one transform per path: records' path conditions must be pairwise exclusive
    for i in range(len(records)):
        for j in range(i + 1, len(records)):
            bad.append(z3.And(records[i][0], records[j][0]))
    return bad, assumptions, len(outs), ip.calls


def make_trait_obligation(pid, module, method, nargs, origin_kind, ctor_name, doc):
    name = 'trait_%s_%s' % (module, method)

    def ctor(ip, args, origin):
        f = ip.mir.find('geo', AFF + ctor_name)
        if ctor_name == 'translate':
            return call1(ip, f, [args[0], args[1]])
        if ctor_name == 'rotate':
            return call1(ip, f, [args[0], origin])
        a = args + [args[-1]] if nargs == 1 else args      # scale(f) = scale_xy(f,f); skew(d) = skew_xy(d,d)
        if ctor_name == 'skew':
            return call_merged_matrix(ip, f, [a[0], a[1], origin])
        return call1(ip, f, [a[0], a[1], origin])

    @obligation(pid, name, doc)
    def o(mir, tier, seed, module=module, method=method):
        bad, assumptions, npaths, calls = trait_form(mir, module, method, nargs, origin_kind, ctor)
        st, info, model = check_unsat(name, assumptions + [z3.Or(bad)])
        return dict(theory='Real; geometry, bounding_rect(), centroid() and affine_transform() opaque', functions=['%s::%s' % (module, method)], paths=npaths, status=st, info=info, model=None, replay=('trait_forms', ''))
    return o


for _mut in ('', '_mut'):
    make_trait_obligation('C13', 'translate', 'translate' + _mut, 2, None, 'translate', 'translate%s(dx,dy) applies exactly AffineTransform::translate(dx,dy) through affine_transform%s, once' % (_mut, _mut))
    make_trait_obligation('C13', 'scale', 'scale' + _mut, 1, 'center', 'scale', 'scale%s(f) applies AffineTransform::scale(f,f, centre of the bounding rectangle); nothing is applied to a geometry without coordinates' % _mut)
    make_trait_obligation('C13', 'scale', 'scale_xy' + _mut, 2, 'center', 'scale', 'scale_xy%s(fx,fy) applies AffineTransform::scale(fx,fy, centre of the bounding rectangle)' % _mut)
    make_trait_obligation('C13', 'scale', 'scale_around_point' + _mut, 2, 'given', 'scale', 'scale_around_point%s(fx,fy,o) applies AffineTransform::scale(fx,fy,o)' % _mut)
    make_trait_obligation('C13', 'rotate', 'rotate_around_center' + _mut, 1, 'center', 'rotate', 'rotate_around_center%s(deg) applies AffineTransform::rotate(deg, centre of the bounding rectangle)' % _mut)
    make_trait_obligation('C13', 'rotate', 'rotate_around_centroid' + _mut, 1, 'centroid', 'rotate', 'rotate_around_centroid%s(deg) applies AffineTransform::rotate(deg, centroid)' % _mut)
    make_trait_obligation('C13', 'rotate', 'rotate_around_point' + _mut, 1, 'given', 'rotate', 'rotate_around_point%s(deg,p) applies AffineTransform::rotate(deg, p)' % _mut)
    make_trait_obligation('C13', 'skew', 'skew' + _mut, 1, 'center', 'skew', 'skew%s(d) applies AffineTransform::skew(d,d, centre of the bounding rectangle)' % _mut)
    make_trait_obligation('C13', 'skew', 'skew_xy' + _mut, 2, 'center', 'skew', 'skew_xy%s(xs,ys) applies AffineTransform::skew(xs,ys, centre of the bounding rectangle)' % _mut)
    make_trait_obligation('C13', 'skew', 'skew_around_point' + _mut, 2, 'given', 'skew', 'skew_around_point%s(xs,ys,o) applies AffineTransform::skew(xs,ys,o)' % _mut)


# ---- structure-preserving rebuilds (C05 orient, C19 map_coords / try_map_coords on holed polygons
# and Multi*): rings / members are opaque records, `collect()` over slice iterators is modelled

class Ring:
    """opaque ring: identity, symbolic winding, mapped flag"""
    def __init__(self, rid, ccw, mapped=False):
        self.rid, self.ccw, self.mapped = rid, ccw, mapped


def structural_interp(mir, nholes, ring_fail=None, log=None):
    """interpreter in which Polygon is the record [ext, [holes]] and the ring-level operations
    are uninterpreted but tracked"""
    T = RealTheory()
    ext = Ring('ext', z3.Bool('ext_ccw'))
    holes = [Ring('hole%d' % i, z3.Bool('hole%d_ccw' % i)) for i in range(nholes)]
    poly = [ext, holes]
    calls = log if log is not None else []

    def exterior(ip, d):
        return deref(d[0])[0]

    def interiors(ip, d):
        return deref(d[0])[1]

    def poly_new(ip, d):
        return [deref(d[0]), [deref(h) for h in deref(d[1])]]

    def rewind(ip, d):
        r, order = deref(d[0]), deref(d[1])
        return Ring(r.rid, z3.BoolVal(order.variant == 'CounterClockwise'), r.mapped)

    def winding_order(ip, d):
        r = deref(d[0])
        return ('fork', [(r.ccw, Enum('Some', [Enum('CounterClockwise')])), (z3.Not(r.ccw), Enum('Some', [Enum('Clockwise')]))])

    def ls_map(ip, d, pc):
        r = deref(d[0])
        calls.append((pc, r.rid))
        return Ring(r.rid, r.ccw, True)
    ls_map.wants_pc = True

    def ls_try_map(ip, d, pc):
        r = deref(d[0])
        calls.append((pc, r.rid))
        f = ring_fail[r.rid]
        return ('fork', [(z3.Not(f), Enum('Ok', [Ring(r.rid, r.ccw, True)])), (f, Enum('Err', [('error-of', r.rid)]))])
    ls_try_map.wants_pc = True

    def clone(ip, d):
        return deref(d[0])

    def ls_map_in_place(ip, d, pc):
        r = deref(d[0])
        calls.append((pc, r.rid))
        r.mapped = True
        return []
    ls_map_in_place.wants_pc = True

    def exterior_mut(ip, d, pc):
        p = deref(d[0])
        outs = ip.call_closure(d[1], [Ref(lambda: p[0])], pc, 0)
        if len(outs) != 1:
            raise Untranslatable('exterior_mut closure forked')
        return []
    exterior_mut.wants_pc = True

    def interiors_mut(ip, d, pc):
        p = deref(d[0])
        outs = ip.call_closure(d[1], [Ref(lambda: p[1])], pc, 0)
        if len(outs) != 1:
            raise Untranslatable('interiors_mut closure forked')
        return []
    interiors_mut.wants_pc = True
    uf = {
        're:geo_types::Polygon::<\\w+>::exterior_mut::<.*>': exterior_mut,
        're:geo_types::Polygon::<\\w+>::interiors_mut::<.*>': interiors_mut,
        're:<geo_types::LineString<\\w+> as map_coords::MapCoordsInPlace<\\w+>>::map_coords_in_place::<.*>': ls_map_in_place,
        're:geo_types::Polygon::<\\w+>::exterior': exterior,
        're:geo_types::Polygon::<\\w+>::interiors': interiors,
        're:geo_types::Polygon::<\\w+>::new': poly_new,
        're:<geo_types::LineString<\\w+> as (algorithm::)?winding_order::Winding>::clone_to_winding_order': rewind,
        're:<geo_types::LineString<\\w+> as (algorithm::)?winding_order::Winding>::winding_order': winding_order,
        're:<geo_types::LineString<\\w+> as map_coords::MapCoords<\\w+, \\w+>>::map_coords::<.*>': ls_map,
        're:<geo_types::LineString<\\w+> as map_coords::MapCoords<\\w+, \\w+>>::try_map_coords::<.*>': ls_try_map,
        're:<geo_types::Polygon<\\w+> as Clone>::clone': clone,
    }
    return Interp(mir, T, EXTRA, uf), poly, ext, holes, calls


def rings_of(p):
    p = deref(p)
    return [deref(p[0])] + [deref(h) for h in deref(p[1])]


@obligation('C05', 'orient_polygon_structure', 'for polygons with 0, 1 and 2 holes of ANY winding and both directions: orient() returns the same rings in the same order, the exterior counter-clockwise and every hole clockwise for Default, the reverse for Reversed (rings opaque; collect() over the hole slice modelled)')
def o_orient_structure(mir, tier, seed):
    fn = mir.find('geo', r'orient')
    bad, npaths = [], 0
    for nholes in (0, 1, 2):
        for direction in ('Default', 'Reversed'):
            ip, poly, ext, holes, _ = structural_interp(mir, nholes)
            outs = ip.call_fn(fn, [Ref(lambda poly=poly: poly), Enum(direction)], z3.BoolVal(True))
            npaths += len(outs)
            bad.append(z3.Not(z3.Or([pc for pc, _ in outs])))
            for pc, res in outs:
                rs = rings_of(res)
                want_ids = ['ext'] + ['hole%d' % i for i in range(nholes)]
                if [r.rid for r in rs] != want_ids:
                    bad.append(pc)      # wrong rings / order on this path
                    continue
                ext_ccw = direction == 'Default'
                conds = [rs[0].ccw == z3.BoolVal(ext_ccw)] + [r.ccw == z3.BoolVal(not ext_ccw) for r in rs[1:]]
                bad.append(z3.And(pc, z3.Not(z3.And(conds))))
    st, info, model = check_unsat('orient_polygon_structure', [z3.Or(bad)])
    return dict(theory='Bool (ring windings symbolic); Polygon = record of opaque rings; slice iter/map/collect modelled', functions=['orient::orient', 'orient::{closure#0}'], paths=npaths, status=st, info=info, model=None, replay=('structural', ''))


def map_obligation(pid, name, fn_pat, doc, fallible):
    @obligation(pid, name, doc)
    def o(mir, tier, seed):
        fn = mir.find('geo', fn_pat)
        bad, npaths = [], 0
        for nholes in (0, 1, 2):
            ids = ['ext'] + ['hole%d' % i for i in range(nholes)]
            fail = {i: z3.Bool('fail_' + i) for i in ids}
            ip, poly, ext, holes, calls = structural_interp(mir, nholes, ring_fail=fail)
            func = ('the-mapping-function',)
            outs = ip.call_fn(fn, [Ref(lambda poly=poly: poly), func], z3.BoolVal(True))
            npaths += len(outs)
            bad.append(z3.Not(z3.Or([pc for pc, _ in outs])))
            first_fail = {}
            for k, i in enumerate(ids):
                first_fail[i] = z3.And([z3.Not(fail[j]) for j in ids[:k]] + [fail[i]])
            nofail = z3.And([z3.Not(fail[i]) for i in ids])
            for pc, res in outs:
                res = deref(res)
                if fallible:
                    if isinstance(res, Enum) and res.variant == 'Ok':
                        rs = rings_of(res.fields[0])
                        okshape = [r.rid for r in rs] == ids and all(r.mapped for r in rs)
                        bad.append(pc if not okshape else z3.And(pc, z3.Not(nofail)))
                    elif isinstance(res, Enum) and res.variant == 'Err':
                        e = deref(res.fields[0])
                        rid = e[1] if isinstance(e, tuple) else None
                        bad.append(pc if rid not in first_fail else z3.And(pc, z3.Not(first_fail[rid])))
                    else:
                        raise Untranslatable('try_map_coords returned %r' % (res,))
                else:
                    rs = rings_of(res)
                    if [r.rid for r in rs] != ids or not all(r.mapped for r in rs):
                        bad.append(pc)
            # the mapping function is applied to no ring after the first failing one
            if fallible:
                for pc, rid in calls:
                    k = ids.index(rid)
                    bad.append(z3.And(pc, z3.Or([fail[j] for j in ids[:k]]) if k else z3.BoolVal(False)))
        st, info, model = check_unsat(name, [z3.Or(bad)])
        return dict(theory='Bool (per-ring failure symbolic); Polygon = record of opaque rings; slice iter/map/collect modelled', functions=[fn_pat.split('::')[-1] + ' (Polygon)'], paths=npaths, status=st, info=info, model=None, replay=('structural', ''))
    return o


@obligation('C19', 'polygon_map_coords_in_place_structure', 'for polygons with 0, 1, 2 holes: map_coords_in_place(f) applies f to every ring exactly once (exterior through exterior_mut, holes through interiors_mut)')
def o_map_in_place(mir, tier, seed):
    fn = mir.find('geo', r'map_coords::<impl at geo/src/algorithm/map_coords\.rs:\d+:1: \d+:53>::map_coords_in_place')
    bad, npaths = [], 0
    for nholes in (0, 1, 2):
        ids = ['ext'] + ['hole%d' % i for i in range(nholes)]
        ip, poly, ext, holes, calls = structural_interp(mir, nholes)
        outs = ip.call_fn(fn, [Ref(lambda poly=poly: poly), ('the-mapping-function',)], z3.BoolVal(True))
        npaths += len(outs)
        if len(outs) != 1:
            raise Untranslatable('map_coords_in_place forked')
        visited = [rid for _, rid in calls]
        if sorted(visited) != sorted(ids) or not all(r.mapped for r in rings_of(poly)):
            bad.append(z3.BoolVal(True))
    st, info, model = check_unsat('polygon_map_coords_in_place_structure', [z3.Or(bad) if bad else z3.BoolVal(False)])
    return dict(theory='structural (no symbolic branch); Polygon = record of opaque rings; IterMut modelled', functions=['map_coords_in_place (Polygon)', 'closures passed to Polygon::exterior_mut / interiors_mut'], paths=npaths, status=st, info=info, model=None, replay=('structural', ''))


def multi_obligations():
    MLS_MAP = r'map_coords::<impl at geo/src/algorithm/map_coords\.rs:\d+:1: \d+:72>::map_coords'
    MPOLY_MAP = r'map_coords::<impl at geo/src/algorithm/map_coords\.rs:\d+:1: \d+:69>::map_coords'
    MPOLY_ORIENT = r'orient::<impl at geo/src/algorithm/orient\.rs:\d+:1: \d+:15>::orient'

    def multi_new(ip, d):
        return [[deref(x) for x in deref(d[0])]]

    @obligation('C19', 'multi_map_coords_structure', 'MultiLineString::map_coords and MultiPolygon::map_coords (members with a hole) rebuild the collection from f applied to every member / ring, same members, same order')
    def o_multi_map(mir, tier, seed):
        bad, npaths = [], 0
        # MultiLineString of 3 members
        ip, _, _, _, calls = structural_interp(mir, 0)
        ip.uf['re:geo_types::Multi\\w+::<\\w+>::new'] = multi_new
        members = [Ring('m%d' % i, z3.Bool('m%d_ccw' % i)) for i in range(3)]
        mls = [members]
        outs = ip.call_fn(mir.find('geo', MLS_MAP), [Ref(lambda: mls), ('f',)], z3.BoolVal(True))
        npaths += len(outs)
        for pc, res in outs:
            got = [deref(x) for x in deref(deref(res)[0])]
            if [r.rid for r in got] != ['m0', 'm1', 'm2'] or not all(r.mapped for r in got):
                bad.append(pc)
        # MultiPolygon of 2 members, each [ext, [hole]]
        ip, _, _, _, calls = structural_interp(mir, 0)
        ip.uf['re:geo_types::Multi\\w+::<\\w+>::new'] = multi_new
        ip.extra[r'<geo_types::Polygon<\w+> as map_coords::MapCoords<\w+, \w+>>::map_coords::<.*>'] = ('geo', POLY_MAP + 'map_coords')
        polys = [[Ring('p%d_ext' % i, z3.Bool('p%d_e' % i)), [Ring('p%d_hole' % i, z3.Bool('p%d_h' % i))]] for i in range(2)]
        mp = [polys]
        outs = ip.call_fn(mir.find('geo', MPOLY_MAP), [Ref(lambda: mp), ('f',)], z3.BoolVal(True))
        npaths += len(outs)
        for pc, res in outs:
            got = [rings_of(x) for x in deref(deref(res)[0])]
            ids = [[r.rid for r in rs] for rs in got]
            if ids != [['p0_ext', 'p0_hole'], ['p1_ext', 'p1_hole']] or not all(r.mapped for rs in got for r in rs):
                bad.append(pc)
        st, info, model = check_unsat('multi_map_coords_structure', [z3.Or(bad) if bad else z3.BoolVal(False)])
        return dict(theory='structural; Multi* = record of opaque members; slice iter/map/collect modelled', functions=['map_coords (MultiLineString)', 'map_coords (MultiPolygon)', 'map_coords (Polygon)'], paths=npaths, status=st, info=info, model=None, replay=('structural', ''))

    @obligation('C05', 'orient_multipolygon_structure', 'MultiPolygon::orient orients every member (two members with a hole each, ANY windings, both directions): exterior counter-clockwise / holes clockwise for Default, the reverse for Reversed, same rings in the same order')
    def o_multi_orient(mir, tier, seed):
        bad, npaths = [], 0
        for direction in ('Default', 'Reversed'):
            ip, _, _, _, _ = structural_interp(mir, 0)
            ip.uf['re:geo_types::Multi\\w+::<\\w+>::new'] = multi_new
            ip.extra[r'<geo_types::Polygon<\w+> as orient::Orient>::orient'] = ('geo', r'orient::<impl at geo/src/algorithm/orient\.rs:6\d:1: \d+:15>::orient')
            ip.extra[r'orient::<\w+>'] = ('geo', r'orient')
            polys = [[Ring('p%d_ext' % i, z3.Bool('p%d_e' % i)), [Ring('p%d_hole' % i, z3.Bool('p%d_h' % i))]] for i in range(2)]
            mp = [polys]
            fns = [m for m in re.finditer(r'^fn (' + MPOLY_ORIENT + r')\(_1: &geo_types::MultiPolygon', mir.text['geo'], re.M)]
            if len(fns) != 1:
                raise Untranslatable('MultiPolygon::orient not found uniquely')
            fn = mir.find('geo', re.escape(fns[0].group(1)))
            outs = ip.call_fn(fn, [Ref(lambda: mp), Enum(direction)], z3.BoolVal(True))
            npaths += len(outs)
            bad.append(z3.Not(z3.Or([pc for pc, _ in outs])))
            for pc, res in outs:
                got = [rings_of(x) for x in deref(deref(res)[0])]
                if [[r.rid for r in rs] for rs in got] != [['p0_ext', 'p0_hole'], ['p1_ext', 'p1_hole']]:
                    bad.append(pc)
                    continue
                ext_ccw = direction == 'Default'
                conds = []
                for rs in got:
                    conds += [rs[0].ccw == z3.BoolVal(ext_ccw), rs[1].ccw == z3.BoolVal(not ext_ccw)]
                bad.append(z3.And(pc, z3.Not(z3.And(conds))))
        st, info, model = check_unsat('orient_multipolygon_structure', [z3.Or(bad)])
        return dict(theory='Bool (ring windings symbolic); structural', functions=['orient (MultiPolygon)', 'orient (Polygon)', 'orient::orient'], paths=npaths, status=st, info=info, model=None, replay=('structural', ''))


POLY_MAP = r'map_coords::<impl at geo/src/algorithm/map_coords\.rs:\d+:1: \d+:64>::'
map_obligation('C19', 'polygon_map_coords_structure', POLY_MAP + 'map_coords', 'for polygons with 0, 1, 2 holes: map_coords(f) rebuilds the polygon from f applied to every ring, same rings, same order', False)
multi_obligations()
map_obligation('C19', 'polygon_try_map_coords_structure', POLY_MAP + 'try_map_coords', 'for polygons with 0, 1, 2 holes and ANY subset of rings on which f fails: try_map_coords returns the error of the FIRST failing ring (exterior, then holes in order), applies f to no later ring, and otherwise returns Ok(all rings mapped, same order)', True)


# ------------------------------------------------------------------------------- models & replay

def model_ints(model, vars_, signed_bits=None):
    if model is None:
        return None
    out = []
    for v in vars_:
        x = model.eval(v, model_completion=True)
        if z3.is_bv_value(x):
            out.append(x.as_signed_long())
        else:
            out.append(x.as_long())
    return out


def model_reals(model, vars_):
    if model is None:
        return None
    out = []
    for v in vars_:
        x = model.eval(v, model_completion=True)
        out.append(float(x.as_fraction()) if z3.is_rational_value(x) else float(x.approx(20).as_fraction()))
    return out


def native(args):
    # VERIF_KANI_DIR / VERIF_NATIVE_TARGET: development overrides (a copy of the crate pointing at a scratch worktree)
    tgt = os.environ.get('VERIF_NATIVE_TARGET', os.path.join(CACHE, 'native-target'))
    exe = os.path.join(tgt, 'debug', 'smtreplay')
    env = dict(os.environ, CARGO_TARGET_DIR=tgt, CARGO_NET_OFFLINE='true', RUSTFLAGS='--cfg georust_geo_verif')
    p = subprocess.run(['cargo', 'build', '--offline', '--bin', 'smtreplay'], cwd=os.environ.get('VERIF_KANI_DIR', os.path.join(VERIF, 'kani')), env=env, stdout=subprocess.PIPE, stderr=subprocess.STDOUT, text=True)
    if p.returncode != 0:
        return None, 'native build failed: ' + p.stdout[-500:]
    p = subprocess.run([exe] + [str(a) for a in args], stdout=subprocess.PIPE, stderr=subprocess.STDOUT, text=True)
    return p.returncode, p.stdout.strip()


def replay_model(kind, model):
    """run the real function on the model; rc 1 = the real code violates the statement on this input"""
    if model is None:
        rc, out = native([kind])
    else:
        rc, out = native([kind] + model)
    return rc, out


def validate_translator(mir, seed, n=200):
    """Serval-style: evaluate the translated kernels on concrete inputs and compare with the natively
    compiled functions (same inputs through `smtreplay eval_*`)."""
    rnd = random.Random(seed)
    T = IntTheory()
    ip = Interp(mir, T, EXTRA)
    fn = mir.find('geo', r'algorithm::kernels::Kernel::orient2d')
    compose, apply_ = mir.find('geo', AFF + 'compose'), mir.find('geo', AFF + 'apply')
    bad, lines = 0, []
    vecs = []
    for _ in range(n):
        vecs.append([rnd.randint(-1000, 1000) for _ in range(6)])
    rc, out = native(['eval_orient2d_i64'] + [x for v in vecs for x in v])
    if rc != 0:
        return False, 'native evaluation failed: %s' % out
    nat = out.split()
    for v, nv in zip(vecs, nat):
        outs = ip.call_fn(fn, [[z3.IntVal(v[0]), z3.IntVal(v[1])], [z3.IntVal(v[2]), z3.IntVal(v[3])], [z3.IntVal(v[4]), z3.IntVal(v[5])]], z3.BoolVal(True))
        got = [val.variant for pc, val in outs if z3.is_true(z3.simplify(pc))]
        if len(got) != 1 or got[0] != nv:
            bad += 1
            lines.append('orient2d%r: translated %r native %s' % (v, got, nv))
    # compose/apply on concrete matrices
    vecs2 = [[rnd.randint(-50, 50) for _ in range(14)] for _ in range(n)]
    rc, out = native(['eval_compose_apply_i64'] + [x for v in vecs2 for x in v])
    if rc != 0:
        return False, 'native evaluation failed: %s' % out
    nat = out.split()
    for k, v in enumerate(vecs2):
        mk = lambda e: [[[z3.IntVal(e[0]), z3.IntVal(e[1]), z3.IntVal(e[2])], [z3.IntVal(e[3]), z3.IntVal(e[4]), z3.IntVal(e[5])], [z3.IntVal(0), z3.IntVal(0), z3.IntVal(1)]]]
        A, B = mk(v[0:6]), mk(v[6:12])
        AB = call1(ip, compose, [Ref(lambda: A), Ref(lambda: B)])
        r = call1(ip, apply_, [Ref(lambda: AB), [z3.IntVal(v[12]), z3.IntVal(v[13])]])
        got = '%s,%s' % (z3.simplify(r[0]), z3.simplify(r[1]))
        if got != nat[k]:
            bad += 1
            lines.append('compose_apply%r: translated %s native %s' % (v, got, nat[k]))
    return bad == 0, '%d vectors per kernel, %d disagreements %s' % (n, bad, '; '.join(lines[:3]))


def run(pid, tier, seed, out):
    results = []
    try:
        mir, dump_s = dump_mir()
    except Exception as e:
        json.dump([{'name': 'mir_dump', 'status': 'inconclusive', 'reason': str(e)[:500]}], open(out, 'w'))
        return 0
    ok, msg = validate_translator(mir, seed, 200 if tier == 'quick' else 2000)
    results.append({'name': 'translator_validation', 'statement': 'the interpreter evaluated on concrete inputs agrees with the natively compiled functions (orient2d, compose+apply)',
                    'status': 'pass' if ok else 'inconclusive', 'reason': msg, 'solver_s': 0, 'queries': 1, 'theory': 'concrete evaluation', 'functions': ['Kernel::orient2d', 'AffineTransform::compose', 'apply']})
    for name, statement, f in OBL.get(pid, []):
        t0 = time.time()
        try:
            r = f(mir, tier, seed)
        except Untranslatable as e:
            r = dict(status='inconclusive', info={'reason': 'untranslatable: %s' % e})
        except Exception as e:
            r = dict(status='inconclusive', info={'reason': 'error: %r' % e})
        info = r.pop('info', {})
        r.update(name=name, statement=statement, solver_s=round(time.time() - t0, 3), solvers=info, queries=2,
                 reason=info.get('reason', '') or ('z3 %s, cvc5 %s' % (info.get('z3'), info.get('cvc5'))), mir_dump_s=round(dump_s, 1))
        if r['status'] == 'cex':
            kind, _ = r.get('replay', (None, None))
            rc, txt = replay_model(kind, r.get('model'))
            r['native'] = txt
            r['reproduced'] = (rc == 1)
            if rc != 1:
                r['reason'] = 'solver model does not reproduce natively (encoding problem): ' + str(txt)[:200]
        r.pop('replay', None)
        results.append(r)
    json.dump(results, open(out, 'w'), indent=1, default=str)
    return 0


def main():
    ap = argparse.ArgumentParser()
    ap.add_argument('--list')
    ap.add_argument('--run')
    ap.add_argument('--replay')
    ap.add_argument('--tier', default='quick')
    ap.add_argument('--seed', type=int, default=0)
    ap.add_argument('--out')
    a = ap.parse_args()
    if a.list:
        print(' '.join(n for n, _, _ in OBL.get(a.list.upper(), [])))
        return 0
    if a.run:
        return run(a.run.upper(), a.tier, a.seed, a.out)
    if a.replay:
        d = json.load(open(a.replay))
        print(d.get('native'))
        return 1
    return 2


if __name__ == '__main__':
    sys.exit(main())
