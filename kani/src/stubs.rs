//! Stub models (each is part of the claim; listed in the evidence of every family using them).
//!
//! S-ORIENT: `robust::orient2d` (Shewchuk's adaptive predicate, third-party crate, not part of
//! /repo) is replaced under Kani by an exact model.  The real adaptive routine produces a > 6 GB
//! CNF for a 16-bit symbolic window; the model evaluates the same determinant exactly.
//! The model *asserts* its own preconditions, so it is checked on every call that geo passes it
//! only values of the declared kind (input coordinates: integral multiples of SCALE within the
//! declared magnitude).  Native replay does not apply stubs: the real `robust` crate runs.

/// 1/ulp of the frame the harness works in (a power of two); every coordinate handed to the
/// predicate must be an integral multiple of 1/SCALE_INV.  1.0 for integer-valued grids.
pub static mut SCALE_INV: f64 = 1.0;
/// magnitude bound on |coordinate * SCALE_INV|
pub static mut BOUND: f64 = 1024.0;

#[inline]
fn to_int(v: f64) -> i128 {
    let (k, b) = unsafe { (SCALE_INV, BOUND) };
    let t = v * k; // exact: k is a power of two and no overflow inside the bound
    assert!(t >= -b && t <= b, "S-ORIENT: geo passed a coordinate outside the declared magnitude bound to robust::orient2d");
    let n = t as i128;
    assert!((n as f64) == t, "S-ORIENT: geo passed a non-grid (computed) coordinate to robust::orient2d");
    n
}

/// exact sign-carrying value of the determinant (pa - pc) x (pb - pc), same convention as
/// `robust::orient2d`: > 0 iff pa, pb, pc are counter-clockwise
pub fn orient2d_exact<T: Into<f64>>(pa: robust::Coord<T>, pb: robust::Coord<T>, pc: robust::Coord<T>) -> f64 {
    let (ax, ay) = (to_int(pa.x.into()), to_int(pa.y.into()));
    let (bx, by) = (to_int(pb.x.into()), to_int(pb.y.into()));
    let (cx, cy) = (to_int(pc.x.into()), to_int(pc.y.into()));
    let det = (ax - cx) * (by - cy) - (ay - cy) * (bx - cx);
    if det > 0 {
        1.0
    } else if det < 0 {
        -1.0
    } else {
        0.0
    }
}

/// cheaper variant for small integer grids (|v| <= 2^10): i32 arithmetic
pub fn orient2d_small<T: Into<f64>>(pa: robust::Coord<T>, pb: robust::Coord<T>, pc: robust::Coord<T>) -> f64 {
    let cv = |v: f64| -> i32 {
        assert!(v >= -1024.0 && v <= 1024.0, "S-ORIENT: geo passed a coordinate outside the declared magnitude bound to robust::orient2d");
        let n = v as i32;
        assert!((n as f64) == v, "S-ORIENT: geo passed a non-grid (computed) coordinate to robust::orient2d");
        n
    };
    let (ax, ay) = (cv(pa.x.into()), cv(pa.y.into()));
    let (bx, by) = (cv(pb.x.into()), cv(pb.y.into()));
    let (cx, cy) = (cv(pc.x.into()), cv(pc.y.into()));
    let det = (ax - cx) * (by - cy) - (ay - cy) * (bx - cx);
    if det > 0 {
        1.0
    } else if det < 0 {
        -1.0
    } else {
        0.0
    }
}

/// S-HYPOT: libm hypot is an unsupported foreign function in Kani; sqrt is modelled exactly
/// (correctly rounded).  May differ from libm by an ulp: downstream assertions carry tolerance.
pub fn hypot_f32(x: f32, y: f32) -> f32 {
    (x * x + y * y).sqrt()
}
pub fn hypot_f64(x: f64, y: f64) -> f64 {
    (x * x + y * y).sqrt()
}
