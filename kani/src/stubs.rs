//! Stub models (each is part of the claim).
