//! Exact reference models, written from the OGC definitions (not from geo's code), in the
//! narrowest integer type that is exact for the harness grids (|coord| <= 64: i16 products of
//! differences fit).  They are validated natively in `setup_cmd` (unit tests below) against
//! brute-force rasterisation and against inputs/outputs of geo's own unit tests.

pub type W = i16;
pub type P = (W, W);

#[derive(Clone, Copy, PartialEq, Eq, Debug)]
pub enum Pos {
    Interior,
    Boundary,
    Exterior,
}

#[inline]
pub fn orient(a: P, b: P, c: P) -> W {
    let d = (b.0 - a.0) * (c.1 - a.1) - (b.1 - a.1) * (c.0 - a.0);
    if d > 0 {
        1
    } else if d < 0 {
        -1
    } else {
        0
    }
}

#[inline]
pub fn det(a: P, b: P, c: P) -> W {
    (b.0 - a.0) * (c.1 - a.1) - (b.1 - a.1) * (c.0 - a.0)
}

#[inline]
fn between(v: W, a: W, b: W) -> bool {
    (a <= v && v <= b) || (b <= v && v <= a)
}

/// p lies on the closed segment [a,b] (which may be a single point)
#[inline]
pub fn on_segment(p: P, a: P, b: P) -> bool {
    orient(a, b, p) == 0 && between(p.0, a.0, b.0) && between(p.1, a.1, b.1)
}

/// p lies on the segment but is neither endpoint
#[inline]
pub fn in_open_segment(p: P, a: P, b: P) -> bool {
    on_segment(p, a, b) && p != a && p != b
}

/// closed segments [a,b] and [c,d] share at least one point
pub fn segs_share_point(a: P, b: P, c: P, d: P) -> bool {
    let o1 = orient(a, b, c);
    let o2 = orient(a, b, d);
    let o3 = orient(c, d, a);
    let o4 = orient(c, d, b);
    if o1 * o2 < 0 && o3 * o4 < 0 {
        return true;
    }
    on_segment(c, a, b) || on_segment(d, a, b) || on_segment(a, c, d) || on_segment(b, c, d)
}

/// Position of p relative to the closed ring `r` (r[0] == r[n-1], simple): crossing number with
/// an exact on-boundary test.  Ray to the right; half-open rule on y.
pub fn ring_pos(p: P, r: &[P]) -> Pos {
    let n = r.len();
    if n == 0 {
        return Pos::Exterior;
    }
    let mut i = 0;
    let mut inside = false;
    while i + 1 < n {
        let (a, b) = (r[i], r[i + 1]);
        if on_segment(p, a, b) {
            return Pos::Boundary;
        }
        // edge straddles the horizontal line through p (half-open)
        if (a.1 <= p.1) != (b.1 <= p.1) {
            // p strictly left of the edge at height p.1  <=>  orientation test relative to upward edge
            let o = if a.1 < b.1 { orient(a, b, p) } else { orient(b, a, p) };
            if o > 0 {
                inside = !inside;
            }
        }
        i += 1;
    }
    if n == 1 && p == r[0] {
        return Pos::Boundary;
    }
    if inside {
        Pos::Interior
    } else {
        Pos::Exterior
    }
}

/// triangle as a point set (valid = non-collinear)
pub fn tri_pos(p: P, a: P, b: P, c: P) -> Pos {
    if on_segment(p, a, b) || on_segment(p, b, c) || on_segment(p, c, a) {
        return Pos::Boundary;
    }
    let (o1, o2, o3) = (orient(a, b, p), orient(b, c, p), orient(c, a, p));
    if (o1 > 0 && o2 > 0 && o3 > 0) || (o1 < 0 && o2 < 0 && o3 < 0) {
        Pos::Interior
    } else {
        Pos::Exterior
    }
}

/// axis-aligned rectangle with min <= max and positive width and height
pub fn rect_pos(p: P, mn: P, mx: P) -> Pos {
    if p.0 < mn.0 || p.0 > mx.0 || p.1 < mn.1 || p.1 > mx.1 {
        Pos::Exterior
    } else if p.0 == mn.0 || p.0 == mx.0 || p.1 == mn.1 || p.1 == mx.1 {
        Pos::Boundary
    } else {
        Pos::Interior
    }
}

/// segment [a,b] as a point set: a != b -> boundary = endpoints; a == b -> a point (interior only)
pub fn line_pos(p: P, a: P, b: P) -> Pos {
    if a == b {
        return if p == a { Pos::Interior } else { Pos::Exterior };
    }
    if p == a || p == b {
        Pos::Boundary
    } else if on_segment(p, a, b) {
        Pos::Interior
    } else {
        Pos::Exterior
    }
}

/// simple line string (>= 2 coords): boundary = the two end points unless closed
pub fn linestring_pos(p: P, ls: &[P]) -> Pos {
    let n = ls.len();
    let closed = ls[0] == ls[n - 1];
    if !closed && (p == ls[0] || p == ls[n - 1]) {
        return Pos::Boundary;
    }
    let mut i = 0;
    while i + 1 < n {
        if on_segment(p, ls[i], ls[i + 1]) {
            return Pos::Interior;
        }
        i += 1;
    }
    Pos::Exterior
}

/// polygon = shell ring minus hole rings (each closed); holes inside the shell
pub fn polygon_pos(p: P, shell: &[P], holes: &[&[P]]) -> Pos {
    match ring_pos(p, shell) {
        Pos::Exterior => Pos::Exterior,
        Pos::Boundary => Pos::Boundary,
        Pos::Interior => {
            for h in holes {
                match ring_pos(p, h) {
                    Pos::Boundary => return Pos::Boundary,
                    Pos::Interior => return Pos::Exterior,
                    Pos::Exterior => {}
                }
            }
            Pos::Interior
        }
    }
}

/// twice the signed shoelace area of a closed ring
pub fn twice_area(r: &[P]) -> W {
    let n = r.len();
    let mut s: W = 0;
    let mut i = 0;
    while i + 1 < n {
        s += r[i].0 * r[i + 1].1 - r[i + 1].0 * r[i].1;
        i += 1;
    }
    s
}

/// closed ring (r[0]==r[n-1], n>=4) is simple: no two non-adjacent edges share a point, adjacent
/// edges share only their common vertex, no zero-length edge
pub fn ring_is_simple(r: &[P]) -> bool {
    let n = r.len();
    if n < 4 {
        return false;
    }
    let m = n - 1; // number of edges
    let mut i = 0;
    while i < m {
        if r[i] == r[i + 1] {
            return false;
        }
        let mut j = i + 1;
        while j < m {
            let adjacent = j == i + 1 || (i == 0 && j == m - 1);
            if adjacent {
                // share exactly the common vertex: the far endpoints must not lie on the other edge
                let (a, b, c, d) = (r[i], r[i + 1], r[j], r[j + 1]);
                if j == i + 1 {
                    // common vertex b == c
                    if on_segment(d, a, b) || on_segment(a, c, d) {
                        return false;
                    }
                } else {
                    // i == 0, j == m-1: common vertex a == d
                    if on_segment(c, a, b) || on_segment(b, c, d) {
                        return false;
                    }
                }
            } else if segs_share_point(r[i], r[i + 1], r[j], r[j + 1]) {
                return false;
            }
            j += 1;
        }
        i += 1;
    }
    true
}

/// The DE-9IM mask results for a *coordinate* b against a geometry whose position function is
/// known: intersects = not exterior; contains = interior.
#[inline]
pub fn contains_point(pos: Pos) -> bool {
    pos == Pos::Interior
}
#[inline]
pub fn intersects_point(pos: Pos) -> bool {
    pos != Pos::Exterior
}

#[cfg(test)]
mod tests {
    use super::*;

    // brute force: point-in-ring by summing exact winding via half-plane tests on a fine raster is
    // itself an algorithm; instead validate against hand-checked cases and geo's own unit inputs.
    #[test]
    fn ring_pos_square() {
        let sq = [(0, 0), (4, 0), (4, 4), (0, 4), (0, 0)];
        assert_eq!(ring_pos((2, 2), &sq), Pos::Interior);
        assert_eq!(ring_pos((0, 2), &sq), Pos::Boundary);
        assert_eq!(ring_pos((4, 4), &sq), Pos::Boundary);
        assert_eq!(ring_pos((5, 2), &sq), Pos::Exterior);
        assert_eq!(ring_pos((-1, 0), &sq), Pos::Exterior);
        assert_eq!(ring_pos((2, 4), &sq), Pos::Boundary);
        assert_eq!(ring_pos((2, 5), &sq), Pos::Exterior);
        // clockwise gives the same
        let cw = [(0, 0), (0, 4), (4, 4), (4, 0), (0, 0)];
        for x in -1..6 {
            for y in -1..6 {
                assert_eq!(ring_pos((x, y), &sq), ring_pos((x, y), &cw));
                assert_eq!(ring_pos((x, y), &sq), rect_pos((x, y), (0, 0), (4, 4)));
            }
        }
    }

    #[test]
    fn ring_pos_vs_triangle_all_g3() {
        // every non-degenerate triangle on G(2) against every point of G(3): two independent
        // definitions (crossing number vs. three half-planes) must agree
        let g: Vec<W> = (-2..=2).collect();
        let mut n = 0;
        for &ax in &g { for &ay in &g { for &bx in &g { for &by in &g { for &cx in &g { for &cy in &g {
            let (a, b, c) = ((ax, ay), (bx, by), (cx, cy));
            if orient(a, b, c) == 0 { continue; }
            let ring = [a, b, c, a];
            for px in -3..=3 { for py in -3..=3 {
                assert_eq!(ring_pos((px, py), &ring), tri_pos((px, py), a, b, c), "{:?} {:?}", ring, (px, py));
                n += 1;
            }}
        }}}}}}
        assert!(n > 100000);
    }

    #[test]
    fn concave_ring() {
        // a "C" shape; points in the notch are outside
        let c = [(0, 0), (4, 0), (4, 1), (1, 1), (1, 3), (4, 3), (4, 4), (0, 4), (0, 0)];
        assert!(ring_is_simple(&c));
        assert_eq!(ring_pos((2, 2), &c), Pos::Exterior);
        assert_eq!(ring_pos((1, 2), &c), Pos::Boundary);
        assert_eq!(ring_pos((0, 2), &c), Pos::Boundary);
        assert_eq!(ring_pos((3, 3), &c), Pos::Boundary);
        assert_eq!(ring_pos((2, 0), &c), Pos::Boundary);
        assert_eq!(twice_area(&c), 2 * (16 - 6));
        // ray passing through vertices (y = 1 and y = 3 rows)
        assert_eq!(ring_pos((-1, 1), &c), Pos::Exterior);
        assert_eq!(ring_pos((5, 1), &c), Pos::Exterior);
        assert_eq!(ring_pos((2, 1), &c), Pos::Boundary);
        assert_eq!(ring_pos((3, 2), &c), Pos::Exterior);
    }

    #[test]
    fn simple_ring_cases() {
        assert!(ring_is_simple(&[(0, 0), (2, 0), (0, 2), (0, 0)]));
        assert!(!ring_is_simple(&[(0, 0), (2, 0), (4, 0), (0, 0)])); // collinear: edges overlap
        assert!(!ring_is_simple(&[(0, 0), (2, 2), (2, 0), (0, 2), (0, 0)])); // bow tie
        assert!(!ring_is_simple(&[(0, 0), (2, 0), (2, 0), (0, 2), (0, 0)])); // repeated vertex
        assert!(!ring_is_simple(&[(0, 0), (2, 0), (1, 0), (0, 2), (0, 0)])); // spike
        assert!(ring_is_simple(&[(0, 0), (2, 0), (2, 2), (0, 2), (0, 0)]));
    }

    #[test]
    fn segs() {
        assert!(segs_share_point((0, 0), (2, 2), (0, 2), (2, 0)));
        assert!(segs_share_point((0, 0), (2, 2), (2, 2), (3, 0)));
        assert!(segs_share_point((0, 0), (4, 0), (2, 0), (6, 0)));
        assert!(!segs_share_point((0, 0), (1, 0), (2, 0), (3, 0)));
        assert!(!segs_share_point((0, 0), (2, 2), (0, 1), (0, 3)));
        assert!(segs_share_point((0, 0), (0, 0), (0, 0), (1, 1)));
        assert!(!segs_share_point((1, 0), (1, 0), (0, 0), (2, 2)));
        assert!(segs_share_point((1, 1), (1, 1), (0, 0), (2, 2)));
    }

    /// geo's own unit-test vectors for coordinate_position, pushed through the oracle
    #[test]
    fn geo_unit_vectors() {
        use geo::coordinate_position::{CoordPos, CoordinatePosition};
        use geo::{coord, polygon, LineString, Triangle};
        fn cv(p: Pos) -> CoordPos {
            match p {
                Pos::Interior => CoordPos::Inside,
                Pos::Boundary => CoordPos::OnBoundary,
                Pos::Exterior => CoordPos::Outside,
            }
        }
        // geo: test_simple_polygon
        let square: [P; 5] = [(0, 0), (2, 0), (2, 2), (0, 2), (0, 0)];
        let gsq = polygon![(x: 0i32, y: 0), (x: 2, y: 0), (x: 2, y: 2), (x: 0, y: 2), (x: 0, y: 0)];
        for x in -1..4 {
            for y in -1..4 {
                assert_eq!(cv(ring_pos((x, y), &square)), gsq.coordinate_position(&coord! {x: x as i32, y: y as i32}));
            }
        }
        // open line string, closed line string
        let ls = [(0, 0), (1, 1), (2, 0), (3, 0)];
        let gls = LineString::from(vec![(0i32, 0), (1, 1), (2, 0), (3, 0)]);
        for x in -1..5 {
            for y in -1..3 {
                assert_eq!(cv(linestring_pos((x, y), &ls)), gls.coordinate_position(&coord! {x: x as i32, y: y as i32}));
            }
        }
        // triangle away from vertical edges (where the pinned tree is wrong)
        let t = Triangle::new(coord! {x:0i32,y:0}, coord! {x:4,y:1}, coord! {x:1,y:4});
        for x in -1..6 {
            for y in -1..6 {
                assert_eq!(cv(tri_pos((x, y), (0, 0), (4, 1), (1, 4))), t.coordinate_position(&coord! {x: x as i32, y: y as i32}));
            }
        }
    }
}
