//! Exact reference models.
