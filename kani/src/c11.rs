//! C11 — line_intersection classifies and locates segment crossings exactly.
//!
//! `f32` + S-ORIENT (small-grid exact model of robust::orient2d).  Segment end points on G(n);
//! every +,-,* of the algorithm is exact there, only the final division rounds.
use crate::gen::*;
use crate::oracle::*;
use crate::Src;
use geo::line_intersection::{line_intersection, LineIntersection};
use geo::Intersects;
use geo_types::{Coord, Line};

fn lex_min(a: P, b: P) -> P {
    if a <= b {
        a
    } else {
        b
    }
}
fn lex_max(a: P, b: P) -> P {
    if a >= b {
        a
    } else {
        b
    }
}

#[derive(PartialEq, Clone, Copy)]
pub enum Kind {
    None,
    Proper,
    Improper(P),
    Overlap(P, P),
}

/// exact classification of two NON-degenerate segments
pub fn classify(a: P, b: P, c: P, d: P) -> Kind {
    if !segs_share_point(a, b, c, d) {
        return Kind::None;
    }
    let (o1, o2, o3, o4) = (orient(a, b, c), orient(a, b, d), orient(c, d, a), orient(c, d, b));
    if o1 == 0 && o2 == 0 && o3 == 0 && o4 == 0 {
        let lo = lex_max(lex_min(a, b), lex_min(c, d));
        let hi = lex_min(lex_max(a, b), lex_max(c, d));
        return if lo == hi { Kind::Improper(lo) } else { Kind::Overlap(lo, hi) };
    }
    if o1 * o2 < 0 && o3 * o4 < 0 {
        return Kind::Proper;
    }
    // a unique shared point that is an end point of one of them
    if on_segment(a, c, d) {
        Kind::Improper(a)
    } else if on_segment(b, c, d) {
        Kind::Improper(b)
    } else if on_segment(c, a, b) {
        Kind::Improper(c)
    } else {
        Kind::Improper(d)
    }
}

fn segs<S: Src>(s: &mut S, n: i8, x0: Option<i8>) -> (P, P, P, P) {
    let a = match x0 {
        Some(x) => gp_x(s, x, x, n),
        None => gp(s, n),
    };
    let (b, c, d) = (gp(s, n), gp(s, n), gp(s, n));
    vassume!(a != b && c != d);
    (a, b, c, d)
}

/// classification + payload for non-degenerate segments
/// `covers`: the class witnesses cost one SAT call each on these float circuits; the quick-tier
/// variant keeps only the END witness, the thorough-tier variants carry all of them
pub fn classify_h<S: Src>(s: &mut S, n: i8, x0: Option<i8>, covers: bool) {
    let (a, b, c, d) = segs(s, n, x0);
    let (p, q) = (line_f(a, b), line_f(c, d));
    let got = line_intersection(p, q);
    let want = classify(a, b, c, d);
    match want {
        Kind::None => assert!(got.is_none(), "line_intersection reports a point for segments that share none"),
        Kind::Proper => {
            assert!(matches!(got, Some(LineIntersection::SinglePoint { is_proper: true, .. })), "crossing interior to both segments is not reported as a proper SinglePoint");
        }
        Kind::Improper(e) => match got {
            Some(LineIntersection::SinglePoint { intersection, is_proper }) => {
                assert!(!is_proper, "a touching point is flagged proper");
                assert!(intersection == cf(e), "improper intersection is not bit-identical to the end point involved");
            }
            _ => assert!(false, "segments touching in exactly one point are not reported as an improper SinglePoint"),
        },
        Kind::Overlap(lo, hi) => match got {
            Some(LineIntersection::Collinear { intersection }) => {
                let (s0, e0) = (intersection.start, intersection.end);
                assert!((s0 == cf(lo) && e0 == cf(hi)) || (s0 == cf(hi) && e0 == cf(lo)), "Collinear payload is not the exact shared sub-segment");
            }
            _ => assert!(false, "collinear segments overlapping in more than a point are not reported as Collinear"),
        },
    }
    assert!(got.is_some() == p.intersects(&q), "line_intersection disagrees with intersects");
    if covers {
        vcover!(matches!(want, Kind::Overlap(..)), "collinear overlap");
        vcover!(matches!(want, Kind::Improper(_)) && orient(a, b, c) == 0 && orient(a, b, d) == 0, "collinear segments abutting in one point");
        vcover!(matches!(want, Kind::Improper(_)) && orient(a, b, d) != 0 && in_open_segment(c, a, b), "T-junction");
        vcover!(want == Kind::Proper, "proper crossing");
    }
}

/// Cheap slices for the quick tier (the full classification harness needs ~20 min of SAT time on
/// these float circuits).  `kind` 0: all four end points on the x axis (collinear case analysis:
/// overlap / abutting / disjoint / containment); 1: all four on the diagonal y = x;
/// 2: a horizontal against a vertical segment (crossing, T-junction, corner touch, miss);
/// 3: all four on the y axis.
pub fn slice_h<S: Src>(s: &mut S, n: i8, kind: u8) {
    let (t1, t2, t3, t4) = (s.range(-n, n) as W, s.range(-n, n) as W, s.range(-n, n) as W, s.range(-n, n) as W);
    let (a, b, c, d): (P, P, P, P) = match kind {
        0 => ((t1, 0), (t2, 0), (t3, 0), (t4, 0)),
        1 => ((t1, t1), (t2, t2), (t3, t3), (t4, t4)),
        3 => ((0, t1), (0, t2), (0, t3), (0, t4)),
        _ => ((t1, 0), (t2, 0), (1, t3), (1, t4)),
    };
    vassume!(a != b && c != d);
    let (p, q) = (line_f(a, b), line_f(c, d));
    let got = line_intersection(p, q);
    let want = classify(a, b, c, d);
    match want {
        Kind::None => assert!(got.is_none(), "line_intersection reports a point for segments that share none"),
        Kind::Proper => match got {
            Some(LineIntersection::SinglePoint { intersection, is_proper: true }) => {
                // horizontal x vertical: the crossing is the lattice point (1, 0)
                assert!((intersection.x - 1.0).abs() <= 0.0001 && intersection.y.abs() <= 0.0001, "proper crossing of an axis-parallel pair is not at the exact crossing point");
            }
            _ => assert!(false, "crossing interior to both segments is not reported as a proper SinglePoint"),
        },
        Kind::Improper(e) => match got {
            Some(LineIntersection::SinglePoint { intersection, is_proper }) => {
                assert!(!is_proper, "a touching point is flagged proper");
                assert!(intersection == cf(e), "improper intersection is not bit-identical to the end point involved");
            }
            _ => assert!(false, "segments touching in exactly one point are not reported as an improper SinglePoint"),
        },
        Kind::Overlap(lo, hi) => match got {
            Some(LineIntersection::Collinear { intersection }) => {
                let (s0, e0) = (intersection.start, intersection.end);
                assert!((s0 == cf(lo) && e0 == cf(hi)) || (s0 == cf(hi) && e0 == cf(lo)), "Collinear payload is not the exact shared sub-segment");
            }
            _ => assert!(false, "collinear segments overlapping in more than a point are not reported as Collinear"),
        },
    }
    let swapped = line_intersection(q, p);
    assert!(same_up_to_direction(got, swapped), "classification / end point / overlap depends on the order of the segments");
    if kind != 2 {
        vcover!(matches!(want, Kind::Improper(_)), "collinear segments abutting in one point");
    } else {
        vcover!(want == Kind::Proper, "proper crossing");
    }
}

/// proper point: inside both bounding boxes and close to the exact crossing
pub fn proper_point<S: Src>(s: &mut S, n: i8, x0: Option<i8>) {
    let (a, b, c, d) = segs(s, n, x0);
    vassume!(classify(a, b, c, d) == Kind::Proper);
    let (p, q) = (line_f(a, b), line_f(c, d));
    let got = line_intersection(p, q);
    match got {
        Some(LineIntersection::SinglePoint { intersection: i, is_proper: true }) => {
            let inb = |v: f32, u: W, w: W| v >= (u.min(w) as f32) && v <= (u.max(w) as f32);
            assert!(inb(i.x, a.0, b.0) && inb(i.y, a.1, b.1), "proper point outside the first segment's bounding box");
            assert!(inb(i.x, c.0, d.0) && inb(i.y, c.1, d.1), "proper point outside the second segment's bounding box");
            // exact crossing: a + t (b-a), t = N/D
            let dd = (b.0 - a.0) * (d.1 - c.1) - (b.1 - a.1) * (d.0 - c.0);
            let nn = (c.0 - a.0) * (d.1 - c.1) - (c.1 - a.1) * (d.0 - c.0);
            let xn = (a.0 * dd + nn * (b.0 - a.0)) as f32;
            let yn = (a.1 * dd + nn * (b.1 - a.1)) as f32;
            let df = dd as f32;
            let tol = 0.0001f32 * df.abs();
            assert!((i.x * df - xn).abs() <= tol, "proper point x is not within tolerance of the exact crossing");
            assert!((i.y * df - yn).abs() <= tol, "proper point y is not within tolerance of the exact crossing");
        }
        _ => assert!(false, "proper crossing not reported as such"),
    }
}

fn same_up_to_direction(x: Option<LineIntersection<f32>>, y: Option<LineIntersection<f32>>) -> bool {
    match (x, y) {
        (None, None) => true,
        (Some(LineIntersection::SinglePoint { intersection: i1, is_proper: p1 }), Some(LineIntersection::SinglePoint { intersection: i2, is_proper: p2 })) => {
            p1 == p2 && (p1 || i1 == i2)
        }
        (Some(LineIntersection::Collinear { intersection: l1 }), Some(LineIntersection::Collinear { intersection: l2 })) => {
            (l1.start == l2.start && l1.end == l2.end) || (l1.start == l2.end && l1.end == l2.start)
        }
        _ => false,
    }
}

/// order independence of the classification, end point and overlap
pub fn order_h<S: Src>(s: &mut S, n: i8, x0: Option<i8>) {
    let (a, b, c, d) = segs(s, n, x0);
    let (p, q) = (line_f(a, b), line_f(c, d));
    let r1 = line_intersection(p, q);
    let r2 = line_intersection(q, p);
    assert!(same_up_to_direction(r1, r2), "classification / end point / overlap depends on the order of the segments");
    let r3 = line_intersection(Line::new(p.end, p.start), q);
    assert!(same_up_to_direction(r1, r3), "classification / end point / overlap depends on the direction of a segment");
}

/// zero-length operands: None iff no shared point, agrees with intersects, and whatever is
/// returned consists of input end points
pub fn degenerate_h<S: Src>(s: &mut S, n: i8) {
    let (a, c, d) = (gp(s, n), gp(s, n), gp(s, n));
    let first = s.bool();
    let (p, q) = if first { (line_f(a, a), line_f(c, d)) } else { (line_f(c, d), line_f(a, a)) };
    let got = line_intersection(p, q);
    let share = on_segment(a, c, d);
    assert!(got.is_some() == share, "zero-length segment: Some/None differs from 'share a point'");
    assert!(got.is_some() == p.intersects(&q), "zero-length segment: disagrees with intersects");
    let pt = |x: Coord<f32>| x == cf(a);
    match got {
        None => {}
        Some(LineIntersection::SinglePoint { intersection, .. }) => assert!(pt(intersection), "zero-length segment: reported point is not the point"),
        Some(LineIntersection::Collinear { intersection }) => assert!(pt(intersection.start) && pt(intersection.end), "zero-length segment: reported overlap is not the point"),
    }
    vcover!(share && c != d && a != c && a != d, "point strictly inside the other segment");
    vcover!(share && c == d, "two equal points");
}

/// f64, nearly coincident long segments far from the origin (the conditioning step and the
/// nearest-endpoint fallback): whatever proper point is reported lies in both bounding boxes, for
/// either operand order.  Coordinates are integral multiples of 2^-32 (exact S-ORIENT frame).
pub fn illcond_h<S: Src>(s: &mut S) {
    use geo_types::coord;
    let u = 1.0f64 / 4294967296.0;
    unsafe {
        crate::stubs::SCALE_INV = 4294967296.0;
        crate::stubs::BOUND = 1.0e17;
    }
    let (i, j, k, l) = (s.i8() as f64, s.i8() as f64, s.i8() as f64, s.i8() as f64);
    let p = Line::new(coord! {x: 1000000.0 + i * u * 16.0, y: 2000000.0 + j * u * 16.0}, coord! {x: 1000008.0 + k * u * 16.0, y: 2000004.0 + l * u * 16.0});
    let q = Line::new(coord! {x: 1000000.0 + 16.0 * u, y: 2000000.0 + 16.0 * u}, coord! {x: 1000008.0 - 8.0 * u, y: 2000004.0 + 16.0 * u});
    let inb = |c: geo_types::Coord<f64>, l: &Line<f64>| c.x >= l.start.x.min(l.end.x) && c.x <= l.start.x.max(l.end.x) && c.y >= l.start.y.min(l.end.y) && c.y <= l.start.y.max(l.end.y);
    let r1 = line_intersection(p, q);
    if let Some(LineIntersection::SinglePoint { intersection, is_proper: true }) = r1 {
        assert!(inb(intersection, &p) && inb(intersection, &q), "proper point lies outside a segment's bounding box (ill-conditioned pair)");
    }
    let r2 = line_intersection(q, p);
    if let Some(LineIntersection::SinglePoint { intersection, is_proper: true }) = r2 {
        assert!(inb(intersection, &p) && inb(intersection, &q), "proper point lies outside a segment's bounding box (ill-conditioned pair, operands swapped)");
    }
    assert!(r1.is_some() == r2.is_some(), "Some/None depends on the operand order");
    vcover!(matches!(r1, Some(LineIntersection::SinglePoint { is_proper: true, .. })), "proper crossing of nearly coincident segments");
    vcover!(r1.is_none(), "nearly coincident but disjoint");
}

harnesses! {
    #[kani::stub(robust::orient2d, crate::stubs::orient2d_small)] #[kani::stub(f32::hypot, crate::stubs::hypot_f32)] fn c11_slice_xaxis_g4(s) { slice_h(s, 4, 0) }
    #[kani::stub(robust::orient2d, crate::stubs::orient2d_small)] #[kani::stub(f32::hypot, crate::stubs::hypot_f32)] fn c11_slice_yaxis_g4(s) { slice_h(s, 4, 3) }
    #[kani::stub(robust::orient2d, crate::stubs::orient2d_small)] #[kani::stub(f32::hypot, crate::stubs::hypot_f32)] fn c11_slice_diagonal_g4(s) { slice_h(s, 4, 1) }
    #[kani::stub(robust::orient2d, crate::stubs::orient2d_small)] #[kani::stub(f32::hypot, crate::stubs::hypot_f32)] fn c11_slice_axis_cross_g4(s) { slice_h(s, 4, 2) }
    #[kani::stub(robust::orient2d, crate::stubs::orient2d_exact)] #[kani::stub(f64::hypot, crate::stubs::hypot_f64)] fn c11_illcond_f64(s) { illcond_h(s) }
    #[kani::stub(robust::orient2d, crate::stubs::orient2d_small)] #[kani::stub(f32::hypot, crate::stubs::hypot_f32)] fn c11_classify_g1(s) { classify_h(s, 1, None, false) }
    #[kani::stub(robust::orient2d, crate::stubs::orient2d_small)] #[kani::stub(f32::hypot, crate::stubs::hypot_f32)] fn c11_classify_g1_witnessed(s) { classify_h(s, 1, None, true) }
    #[kani::stub(robust::orient2d, crate::stubs::orient2d_small)] #[kani::stub(f32::hypot, crate::stubs::hypot_f32)] fn c11_classify_g2_x0(s) { classify_h(s, 2, Some(-2), false) }
    #[kani::stub(robust::orient2d, crate::stubs::orient2d_small)] #[kani::stub(f32::hypot, crate::stubs::hypot_f32)] fn c11_classify_g2_x1(s) { classify_h(s, 2, Some(-1), false) }
    #[kani::stub(robust::orient2d, crate::stubs::orient2d_small)] #[kani::stub(f32::hypot, crate::stubs::hypot_f32)] fn c11_classify_g2_x2(s) { classify_h(s, 2, Some(0), true) }
    #[kani::stub(robust::orient2d, crate::stubs::orient2d_small)] #[kani::stub(f32::hypot, crate::stubs::hypot_f32)] fn c11_classify_g2_x3(s) { classify_h(s, 2, Some(1), false) }
    #[kani::stub(robust::orient2d, crate::stubs::orient2d_small)] #[kani::stub(f32::hypot, crate::stubs::hypot_f32)] fn c11_classify_g2_x4(s) { classify_h(s, 2, Some(2), false) }
    #[kani::stub(robust::orient2d, crate::stubs::orient2d_small)] #[kani::stub(f32::hypot, crate::stubs::hypot_f32)] fn c11_proper_point_g1(s) { proper_point(s, 1, None) }
    #[kani::stub(robust::orient2d, crate::stubs::orient2d_small)] #[kani::stub(f32::hypot, crate::stubs::hypot_f32)] fn c11_proper_point_g2_x0(s) { proper_point(s, 2, Some(-2)) }
    #[kani::stub(robust::orient2d, crate::stubs::orient2d_small)] #[kani::stub(f32::hypot, crate::stubs::hypot_f32)] fn c11_proper_point_g2_x2(s) { proper_point(s, 2, Some(0)) }
    #[kani::stub(robust::orient2d, crate::stubs::orient2d_small)] #[kani::stub(f32::hypot, crate::stubs::hypot_f32)] fn c11_order_g1(s) { order_h(s, 1, None) }
    #[kani::stub(robust::orient2d, crate::stubs::orient2d_small)] #[kani::stub(f32::hypot, crate::stubs::hypot_f32)] fn c11_order_g2_x0(s) { order_h(s, 2, Some(-2)) }
    #[kani::stub(robust::orient2d, crate::stubs::orient2d_small)] #[kani::stub(f32::hypot, crate::stubs::hypot_f32)] fn c11_order_g2_x2(s) { order_h(s, 2, Some(0)) }
    #[kani::stub(robust::orient2d, crate::stubs::orient2d_small)] #[kani::stub(f32::hypot, crate::stubs::hypot_f32)] fn c11_degenerate_g2(s) { degenerate_h(s, 2) }
    #[kani::stub(robust::orient2d, crate::stubs::orient2d_small)] #[kani::stub(f32::hypot, crate::stubs::hypot_f32)] fn c11_sanity_must_fail(s) {
        slice_h(s, 1, 0);
        assert!(false, "sanity twin reached its end");
    }
}
