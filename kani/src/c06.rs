//! C06 — centroid (PARTIAL: tiny shapes).  `f32`, float NaN/overflow checks off, S-ORIENT for the
//! dimension tests of Triangle, S-HYPOT for segment lengths.
use crate::gen::*;
use crate::oracle::*;
use crate::Src;
use geo::Centroid;
use geo_types::{Geometry, GeometryCollection, Line, LineString, MultiPoint, Point, Polygon, Triangle};

fn near(v: f32, num: W, den: W) -> bool {
    // v * den within 1e-4 of num (small integers)
    (v * (den as f32) - (num as f32)).abs() <= 0.0001 * (1.0 + (num as f32).abs())
}

pub fn triangle<S: Src>(s: &mut S, n: i8) {
    let (a, b, c) = (gp(s, n), gp(s, n), gp(s, n));
    vassume!(orient(a, b, c) != 0);
    let t = Triangle(cf(a), cf(b), cf(c));
    let g = t.centroid();
    assert!(near(g.x(), a.0 + b.0 + c.0, 3) && near(g.y(), a.1 + b.1 + c.1, 3), "Triangle centroid is not the mean of the vertices");
    vcover!(orient(a, b, c) < 0, "clockwise triangle");
}

pub fn polygon3<S: Src>(s: &mut S, n: i8) {
    let (a, b, c) = (gp(s, n), gp(s, n), gp(s, n));
    vassume!(orient(a, b, c) != 0);
    let p: Polygon<f32> = poly_f(&[a, b, c, a], &[]);
    let g = p.centroid();
    assert!(g.is_some(), "centroid of a non-empty polygon is None");
    let g = g.unwrap();
    assert!(near(g.x(), a.0 + b.0 + c.0, 3) && near(g.y(), a.1 + b.1 + c.1, 3), "3-ring polygon centroid is not the mean of the vertices");
    vcover!(orient(a, b, c) < 0, "clockwise ring");
    core::mem::forget(p);
}

pub fn line_point<S: Src>(s: &mut S, n: i8) {
    let (a, b) = (gp(s, n), gp(s, n));
    let g = Line::new(cf(a), cf(b)).centroid();
    assert!(g.x() * 2.0 == (a.0 + b.0) as f32 && g.y() * 2.0 == (a.1 + b.1) as f32, "Line centroid is not the midpoint");
    let p = Point(cf(a)).centroid();
    assert!(p == Point(cf(a)), "Point centroid");
    let mp = MultiPoint(vec![Point(cf(a)), Point(cf(b))]);
    let m = mp.centroid();
    assert!(m.is_some(), "centroid of a non-empty MultiPoint is None");
    let m = m.unwrap();
    assert!(m.x() * 2.0 == (a.0 + b.0) as f32 && m.y() * 2.0 == (a.1 + b.1) as f32, "MultiPoint centroid is not the mean");
    core::mem::forget(mp);
}

pub fn empties<S: Src>(s: &mut S) {
    let a = gp(s, 2);
    let e1: LineString<f32> = LineString::new(vec![]);
    assert!(e1.centroid().is_none(), "centroid of an empty LineString is not None");
    let e2: MultiPoint<f32> = MultiPoint(vec![]);
    assert!(e2.centroid().is_none(), "centroid of an empty MultiPoint is not None");
    let e3: Polygon<f32> = Polygon::new(LineString::new(vec![]), vec![]);
    assert!(e3.centroid().is_none(), "centroid of an empty Polygon is not None");
    let e4: GeometryCollection<f32> = GeometryCollection(vec![]);
    assert!(e4.centroid().is_none(), "centroid of an empty GeometryCollection is not None");
    let one = LineString::new(vec![cf(a)]);
    assert!(one.centroid() == Some(Point(cf(a))), "centroid of a one-coordinate LineString");
}

/// a higher-dimensional member replaces lower ones whatever the lower ones are, in either order
pub fn dominance<S: Src>(s: &mut S, n: i8, order: u8) {
    let (p, a, b) = (gp(s, n), gp(s, n), gp(s, n));
    let tri = Triangle(cf((0, 0)), cf((3, 0)), cf((0, 3)));
    let want = tri.centroid();
    let (gp_, gl, gt) = (Geometry::Point(Point(cf(p))), Geometry::Line(line_f(a, b)), Geometry::Triangle(tri));
    let gc = match order {
        0 => GeometryCollection(vec![gp_, gl, gt]),
        1 => GeometryCollection(vec![gt, gl, gp_]),
        _ => GeometryCollection(vec![gl, gt, gp_]),
    };
    let g = gc.centroid();
    assert!(g == Some(want), "a lower-dimensional member changed the centroid of a collection that has an areal member");
    vcover!(a == b, "degenerate (point-like) line member");
    core::mem::forget(gc);
}

/// lines dominate points: [Point(sym), Line(concrete)]
pub fn dominance_line<S: Src>(s: &mut S, n: i8) {
    let p = gp(s, n);
    let l = line_f((0, 0), (4, 2));
    let gc = GeometryCollection(vec![Geometry::Point(Point(cf(p))), Geometry::Line(l), Geometry::Point(Point(cf(p)))]);
    assert!(gc.centroid() == Some(l.centroid()), "a point member changed the centroid of a collection that has a linear member");
    core::mem::forget(gc);
}

/// zero-area polygon falls back to the centroid of its outline
pub fn flat_polygon<S: Src>(s: &mut S, n: i8) {
    let (a, b) = (gp(s, n), gp(s, n));
    let p: Polygon<f32> = poly_f(&[a, b, a], &[]);
    let g = p.centroid();
    assert!(g.is_some(), "flat polygon has no centroid");
    let g = g.unwrap();
    assert!(near(g.x(), a.0 + b.0, 2) && near(g.y(), a.1 + b.1, 2), "flat polygon centroid is not the midpoint of its outline");
    vcover!(a == b, "single repeated point");
    core::mem::forget(p);
}

harnesses! {
    #[kani::unwind(6)] #[kani::stub(robust::orient2d, crate::stubs::orient2d_small)] #[kani::stub(f32::hypot, crate::stubs::hypot_f32)] fn c06_triangle_g1(s) { triangle(s, 1) }
    #[kani::unwind(6)] #[kani::stub(robust::orient2d, crate::stubs::orient2d_small)] #[kani::stub(f32::hypot, crate::stubs::hypot_f32)] fn c06_triangle_g2(s) { triangle(s, 2) }
    #[kani::unwind(6)] #[kani::stub(robust::orient2d, crate::stubs::orient2d_small)] #[kani::stub(f32::hypot, crate::stubs::hypot_f32)] fn c06_polygon3_g1(s) { polygon3(s, 1) }
    #[kani::unwind(6)] #[kani::stub(f32::hypot, crate::stubs::hypot_f32)] fn c06_line_point_g4(s) { line_point(s, 4) }
    #[kani::unwind(6)] #[kani::stub(f32::hypot, crate::stubs::hypot_f32)] fn c06_empties(s) { empties(s) }
    #[kani::unwind(6)] #[kani::stub(robust::orient2d, crate::stubs::orient2d_small)] #[kani::stub(f32::hypot, crate::stubs::hypot_f32)] fn c06_dominance_o0(s) { dominance(s, 2, 0) }
    #[kani::unwind(6)] #[kani::stub(robust::orient2d, crate::stubs::orient2d_small)] #[kani::stub(f32::hypot, crate::stubs::hypot_f32)] fn c06_dominance_o1(s) { dominance(s, 2, 1) }
    #[kani::unwind(6)] #[kani::stub(robust::orient2d, crate::stubs::orient2d_small)] #[kani::stub(f32::hypot, crate::stubs::hypot_f32)] fn c06_dominance_o2(s) { dominance(s, 2, 2) }
    #[kani::unwind(6)] #[kani::stub(f32::hypot, crate::stubs::hypot_f32)] fn c06_dominance_line(s) { dominance_line(s, 3) }
    #[kani::unwind(6)] #[kani::stub(robust::orient2d, crate::stubs::orient2d_small)] #[kani::stub(f32::hypot, crate::stubs::hypot_f32)] fn c06_flat_polygon_g1(s) { flat_polygon(s, 1) }
    #[kani::unwind(6)] #[kani::stub(f32::hypot, crate::stubs::hypot_f32)] fn c06_sanity_must_fail(s) {
        line_point(s, 1);
        assert!(false, "sanity twin reached its end");
    }
}
