//! C08 — convex hull (PARTIAL: Graham scan and the <= 3-point path; quick-hull recursion and
//! minimum_rotated_rect are not admitted, see DESIGN.md).  `T = i16`.
use crate::gen::*;
use crate::oracle::*;
use crate::Src;
use geo::convex_hull::graham_hull;
use geo::ConvexHull;
use geo_types::{Coord, LineString, MultiPoint, Point};

/// the M distinct hull vertices `c` (in ring order) of the input multiset `pts`: strictly convex
/// counter-clockwise, vertices are inputs, every input inside-or-on every edge.  M is a constant so
/// that every index is concrete after unrolling.
fn check_cycle<const M: usize>(c: [P; M], pts: &[P]) {
    let mut i = 0;
    while i < M {
        let (a, b, d) = (c[i], c[(i + 1) % M], c[(i + 2) % M]);
        assert!(orient(a, b, d) > 0, "hull is not strictly convex counter-clockwise (repeated vertex, vertex on an edge, or a clockwise turn)");
        let mut is_input = false;
        let mut k = 0;
        while k < pts.len() {
            if pts[k] == a {
                is_input = true;
            }
            assert!(orient(a, b, pts[k]) >= 0, "an input coordinate lies outside the hull");
            k += 1;
        }
        assert!(is_input, "a hull vertex is not an input coordinate");
        i += 1;
    }
}

/// hull ring h (closed) of the input multiset `pts` (>= 3 non-collinear, at most 4 points)
fn check_hull(h: &LineString<I>, pts: &[P]) {
    let v = &h.0;
    let n = v.len();
    assert!(n == 4 || (n == 5 && pts.len() >= 4), "hull has an impossible number of coordinates");
    assert!(v[0] == v[n - 1], "hull ring is not closed");
    let back = |c: Coord<I>| -> P { (c.x, c.y) };
    if n == 4 {
        check_cycle([back(v[0]), back(v[1]), back(v[2])], pts);
    } else {
        check_cycle([back(v[0]), back(v[1]), back(v[2]), back(v[3])], pts);
    }
}

pub fn graham4<S: Src>(s: &mut S, n: i8, x0: Option<i8>) {
    graham4_at(s, n, x0, None)
}

/// case split: first point's x (and optionally y) fixed
pub fn graham4_at<S: Src>(s: &mut S, n: i8, x0: Option<i8>, y0: Option<i8>) {
    let a = match (x0, y0) {
        (Some(x), Some(y)) => (x as W, y as W),
        (Some(x), None) => gp_x(s, x, x, n),
        _ => gp(s, n),
    };
    let (b, c, d) = (gp(s, n), gp(s, n), gp(s, n));
    let pts = [a, b, c, d];
    // the property speaks about inputs with at least three non-collinear coordinates
    vassume!(orient(a, b, c) != 0 || orient(a, b, d) != 0 || orient(a, c, d) != 0 || orient(b, c, d) != 0);
    let mut v = vec![ci(a), ci(b), ci(c), ci(d)];
    let h = graham_hull(&mut v, false);
    check_hull(&h, &pts);
    vcover!(h.0.len() == 4, "one input strictly inside or on an edge of the triangle of the others");
    vcover!(h.0.len() == 5, "all four inputs are hull vertices");
    vcover!(a == b, "duplicate input");
    vcover!(orient(a, b, c) == 0 && a != b && b != c && a != c, "three collinear inputs");
    core::mem::forget(h);
    core::mem::forget(v);
}

/// the trait entry point on <= 3 coordinates (trivial_hull path of quick_hull)
/// `sign`: case split on the orientation of the input triple (+1 ccw, -1 cw, 0 collinear).
/// graham_hull on fewer than 4 points takes the same `trivial_hull` path as the trait entry point
/// (whose own `collect` + `Polygon::new` wrapping made the harness exceed the quick cap).
pub fn trivial3<S: Src>(s: &mut S, n: i8, sign: W) {
    let (a, b, c) = (gp(s, n), gp(s, n), gp(s, n));
    vassume!(orient(a, b, c) == sign);
    let mut v = vec![ci(a), ci(b), ci(c)];
    let h = graham_hull(&mut v, false);
    if sign != 0 {
        check_hull(&h, &[a, b, c]);
    } else {
        // degenerate input: closed ring made of input coordinates only
        let r = &h.0;
        assert!(!r.is_empty() && r[0] == r[r.len() - 1], "degenerate hull is not closed");
        let mut i = 0;
        while i < r.len() {
            assert!(r[i] == ci(a) || r[i] == ci(b) || r[i] == ci(c), "degenerate hull contains a coordinate that is not an input");
            i += 1;
        }
        vcover!(a != b && b != c && a != c, "three collinear distinct points");
    }
    core::mem::forget(h);
    core::mem::forget(v);
}

/// the trait entry point itself (thorough tier candidate)
pub fn trait_entry3<S: Src>(s: &mut S, n: i8) {
    let (a, b, c) = (gp(s, n), gp(s, n), gp(s, n));
    vassume!(orient(a, b, c) != 0);
    let mp = MultiPoint(vec![Point(ci(a)), Point(ci(b)), Point(ci(c))]);
    let hull = mp.convex_hull();
    assert!(hull.interiors().is_empty(), "hull has holes");
    check_hull(hull.exterior(), &[a, b, c]);
    core::mem::forget(hull);
    core::mem::forget(mp);
}

harnesses! {
    #[kani::unwind(7)] fn c08_trivial3_g2_ccw(s) { trivial3(s, 2, 1) }
    #[kani::unwind(7)] fn c08_trivial3_g2_cw(s) { trivial3(s, 2, -1) }
    #[kani::unwind(7)] fn c08_trivial3_g2_collinear(s) { trivial3(s, 2, 0) }
    #[kani::unwind(7)] fn c08_graham4_g1(s) { graham4(s, 1, None) }
    #[kani::unwind(7)] fn c08_graham4_g1_p00(s) { graham4_at(s, 1, Some(-1), Some(-1)) }
    #[kani::unwind(7)] fn c08_graham4_g1_p01(s) { graham4_at(s, 1, Some(-1), Some(0)) }
    #[kani::unwind(7)] fn c08_graham4_g1_p02(s) { graham4_at(s, 1, Some(-1), Some(1)) }
    #[kani::unwind(7)] fn c08_graham4_g1_p10(s) { graham4_at(s, 1, Some(0), Some(-1)) }
    #[kani::unwind(7)] fn c08_graham4_g1_p11(s) { graham4_at(s, 1, Some(0), Some(0)) }
    #[kani::unwind(7)] fn c08_graham4_g1_p12(s) { graham4_at(s, 1, Some(0), Some(1)) }
    #[kani::unwind(7)] fn c08_graham4_g1_p20(s) { graham4_at(s, 1, Some(1), Some(-1)) }
    #[kani::unwind(7)] fn c08_graham4_g1_p21(s) { graham4_at(s, 1, Some(1), Some(0)) }
    #[kani::unwind(7)] fn c08_graham4_g1_p22(s) { graham4_at(s, 1, Some(1), Some(1)) }
    #[kani::unwind(7)] fn c08_trait_entry3_g2(s) { trait_entry3(s, 2) }
    #[kani::unwind(7)] fn c08_graham4_g2_x0(s) { graham4(s, 2, Some(-2)) }
    #[kani::unwind(7)] fn c08_graham4_g2_x1(s) { graham4(s, 2, Some(-1)) }
    #[kani::unwind(7)] fn c08_graham4_g2_x2(s) { graham4(s, 2, Some(0)) }
    #[kani::unwind(7)] fn c08_graham4_g2_x3(s) { graham4(s, 2, Some(1)) }
    #[kani::unwind(7)] fn c08_graham4_g2_x4(s) { graham4(s, 2, Some(2)) }
    #[kani::unwind(7)] fn c08_sanity_must_fail(s) {
        graham4_at(s, 1, Some(0), Some(0));
        assert!(false, "sanity twin reached its end");
    }
}
