//! geo-kani: Kani proof harnesses over the real georust/geo code in /repo (path dependency).
//!
//! Every harness body is written against the `Src` trait: under Kani the source returns
//! `kani::any()`, natively (bin/replay) it returns the bytes recorded from a counterexample, so
//! the *same* body is what the solver decides and what is replayed against the real build.
#![allow(clippy::all)]
#![allow(dead_code)]

/// `kani::assume` under Kani; natively an assumption violated by the recorded values means the
/// counterexample does not replay (reported as such, never as a violation).
#[macro_export]
macro_rules! vassume {
    ($c:expr) => {{
        #[cfg(kani)]
        kani::assume($c);
        #[cfg(not(kani))]
        if !($c) {
            std::panic::panic_any($crate::AssumeViolated(stringify!($c)));
        }
    }};
}

/// Reachability / non-vacuity witness: `kani::cover!` under Kani, recorded natively.
#[macro_export]
macro_rules! vcover {
    ($c:expr, $msg:literal) => {{
        #[cfg(kani)]
        kani::cover!($c, $msg);
        #[cfg(not(kani))]
        if $c {
            $crate::src::note_cover($msg);
        }
    }};
}

/// Defines a set of harnesses.  Each `fn name(s) { .. }` becomes a module `name` with
/// `body::<S: Src>` (compiled natively and under Kani) and, under Kani only, the proof function
/// `name::check` carrying the given kani attributes.  `TABLE` lists the native bodies.
#[macro_export]
macro_rules! harnesses {
    ( $( $(#[$m:meta])* fn $name:ident($s:ident) $body:block )* ) => {
        $(
            pub mod $name {
                #[allow(unused_imports)]
                use super::*;
                pub fn body<S: $crate::Src>($s: &mut S) {
                    $body
                    $crate::vcover!(true, "END: harness body ran to its end");
                }
                #[cfg(kani)]
                #[kani::proof]
                $(#[$m])*
                pub fn check() {
                    body(&mut $crate::KaniSrc)
                }
            }
        )*
        pub const TABLE: &[(&str, fn(&mut $crate::ReplaySrc))] = &[
            $( (stringify!($name), $name::body::<$crate::ReplaySrc>), )*
        ];
    };
}

pub mod src;
pub use src::*;

pub mod gen;
pub mod known;
pub mod oracle;
pub mod stubs;

pub mod c01;
pub mod c02;
pub mod c03;
pub mod c05;
pub mod c06;
pub mod c07;
pub mod c08;
pub mod c11;
pub mod c12;
pub mod c13;
pub mod c14;
pub mod c15;
pub mod c18;
pub mod c19;

/// name -> native body, for bin/replay.
pub fn table() -> Vec<(&'static str, fn(&mut ReplaySrc))> {
    let mut v: Vec<(&'static str, fn(&mut ReplaySrc))> = Vec::new();
    v.extend_from_slice(c01::TABLE);
    v.extend_from_slice(c02::TABLE);
    v.extend_from_slice(c03::TABLE);
    v.extend_from_slice(c05::TABLE);
    v.extend_from_slice(c06::TABLE);
    v.extend_from_slice(c07::TABLE);
    v.extend_from_slice(c08::TABLE);
    v.extend_from_slice(c11::TABLE);
    v.extend_from_slice(c12::TABLE);
    v.extend_from_slice(c13::TABLE);
    v.extend_from_slice(c14::TABLE);
    v.extend_from_slice(c15::TABLE);
    v.extend_from_slice(c18::TABLE);
    v.extend_from_slice(c19::TABLE);
    v
}
