//! Symbolic-or-recorded input source and the harness-definition macros.

/// Source of harness inputs. One call == one `kani::any()` of a primitive type, so the i-th
/// call natively consumes the i-th byte vector of Kani's concrete playback.
pub trait Src {
    fn bool(&mut self) -> bool;
    fn u8(&mut self) -> u8;
    fn i8(&mut self) -> i8;
    fn i16(&mut self) -> i16;
    fn i32(&mut self) -> i32;
    fn u32(&mut self) -> u32;
    fn f32(&mut self) -> f32;
    fn f64(&mut self) -> f64;

    /// integer in -n..=n as i32 (drawn as i8)
    fn grid(&mut self, n: i8) -> i32 {
        let v = self.i8();
        vassume!(v >= -n && v <= n);
        v as i32
    }
    /// integer in lo..=hi (drawn as i8)
    fn range(&mut self, lo: i8, hi: i8) -> i32 {
        let v = self.i8();
        vassume!(v >= lo && v <= hi);
        v as i32
    }
    /// u8 in 0..n
    fn below(&mut self, n: u8) -> usize {
        let v = self.u8();
        vassume!(v < n);
        v as usize
    }
}

#[cfg(kani)]
pub struct KaniSrc;

#[cfg(kani)]
impl Src for KaniSrc {
    fn bool(&mut self) -> bool {
        kani::any()
    }
    fn u8(&mut self) -> u8 {
        kani::any()
    }
    fn i8(&mut self) -> i8 {
        kani::any()
    }
    fn i16(&mut self) -> i16 {
        kani::any()
    }
    fn i32(&mut self) -> i32 {
        kani::any()
    }
    fn u32(&mut self) -> u32 {
        kani::any()
    }
    fn f32(&mut self) -> f32 {
        kani::any()
    }
    fn f64(&mut self) -> f64 {
        kani::any()
    }
}

/// Native replay source: byte vectors in the order Kani's concrete playback printed them.
pub struct ReplaySrc {
    pub vals: Vec<Vec<u8>>,
    pub pos: usize,
}

pub struct AssumeViolated(pub &'static str);
pub struct ReplayExhausted;

impl ReplaySrc {
    pub fn new(vals: Vec<Vec<u8>>) -> Self {
        ReplaySrc { vals, pos: 0 }
    }
    fn next<const N: usize>(&mut self) -> [u8; N] {
        if self.pos >= self.vals.len() {
            std::panic::panic_any(ReplayExhausted);
        }
        let v = &self.vals[self.pos];
        self.pos += 1;
        let mut out = [0u8; N];
        for i in 0..N.min(v.len()) {
            out[i] = v[i];
        }
        out
    }
}

impl Src for ReplaySrc {
    fn bool(&mut self) -> bool {
        self.next::<1>()[0] != 0
    }
    fn u8(&mut self) -> u8 {
        self.next::<1>()[0]
    }
    fn i8(&mut self) -> i8 {
        self.next::<1>()[0] as i8
    }
    fn i16(&mut self) -> i16 {
        i16::from_le_bytes(self.next::<2>())
    }
    fn i32(&mut self) -> i32 {
        i32::from_le_bytes(self.next::<4>())
    }
    fn u32(&mut self) -> u32 {
        u32::from_le_bytes(self.next::<4>())
    }
    fn f32(&mut self) -> f32 {
        f32::from_le_bytes(self.next::<4>())
    }
    fn f64(&mut self) -> f64 {
        f64::from_le_bytes(self.next::<8>())
    }
}

#[cfg(not(kani))]
thread_local! {
    pub static COVERS: std::cell::RefCell<Vec<&'static str>> = std::cell::RefCell::new(Vec::new());
}

#[cfg(not(kani))]
pub fn note_cover(m: &'static str) {
    COVERS.with(|c| c.borrow_mut().push(m));
}

