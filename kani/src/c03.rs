//! C03 — orientation and point-location predicates are exact.
//!
//! (a) integer kernel vs exact sign on G(8) (cross-checks E2's reading of the MIR);
//! (b) float delegation on ill-conditioned frames: two vertices concrete and far apart, the third
//!     = concrete base + symbolic (i,j)*ulp.  `robust::orient2d` is replaced by the exact model
//!     S-ORIENT; if geo stops routing a decision through it (naive formula, SimpleKernel, f32 cast,
//!     swapped sign / operands) the float arithmetic is executed symbolically and the solver
//!     finds the classic sign flips on these frames.
use crate::gen::*;
use crate::oracle::*;
use crate::Src;
use geo::coordinate_position::{coord_pos_relative_to_ring, CoordPos};
use geo::kernels::{Kernel, Orientation};
use geo::winding_order::{Winding, WindingOrder};
use geo::{Contains, GeoNum, Intersects};
use geo_types::{coord, Coord, Line, LineString, Triangle};

fn ori(sign: i8) -> Orientation {
    if sign > 0 {
        Orientation::CounterClockwise
    } else if sign < 0 {
        Orientation::Clockwise
    } else {
        Orientation::Collinear
    }
}

pub fn orient_int<S: Src>(s: &mut S) {
    let (p, q, r) = (gp(s, 8), gp(s, 8), gp(s, 8));
    let want = ori(orient(p, q, r) as i8);
    assert!(<i16 as GeoNum>::Ker::orient2d(ci(p), ci(q), ci(r)) == want, "i16 kernel differs from the exact sign");
    let c32 = |p: P| -> Coord<i32> { coord! {x: p.0 as i32, y: p.1 as i32} };
    assert!(<i32 as GeoNum>::Ker::orient2d(c32(p), c32(q), c32(r)) == want, "i32 kernel differs from the exact sign");
    let c64 = |p: P| -> Coord<i64> { coord! {x: p.0 as i64, y: p.1 as i64} };
    assert!(<i64 as GeoNum>::Ker::orient2d(c64(p), c64(q), c64(r)) == want, "i64 kernel differs from the exact sign");
    vcover!(want == Orientation::Collinear && p != q && q != r, "collinear distinct points");
    vcover!(want == Orientation::Clockwise, "clockwise");
}

/// A frame: q and r concrete and far apart, p = base + (i,j)*ulp; everything is an integral
/// multiple of ulp = 1/scale_inv.  Returns the points as f64 and as exact integers (units of ulp).
pub struct Frame {
    pub p: Coord<f64>,
    pub q: Coord<f64>,
    pub r: Coord<f64>,
    pub ip: (i128, i128),
    pub iq: (i128, i128),
    pub ir: (i128, i128),
}

pub const N_FRAMES: usize = 4;

pub fn frame<S: Src>(s: &mut S, k: usize) -> Frame {
    frame2(s, k, false)
}

/// `around`: for frame 0 move q to (-12,-12) so that p lies inside the segment's bounding box
pub fn frame2<S: Src>(s: &mut S, k: usize, around: bool) -> Frame {
    // (scale_inv, bound, base, q, r) ; all in f64
    let (scale_inv, base, q, r): (f64, (f64, f64), (f64, f64), (f64, f64)) = match k {
        // Kettner et al.: p near (0.5,0.5) in steps of 2^-53, q=(12,12), r=(24,24)
        0 => (9007199254740992.0, (0.5, 0.5), if around { (-12.0, -12.0) } else { (12.0, 12.0) }, (24.0, 24.0)),
        // integer frame at 2^52: the anti-diagonal through (2^52,0),(0,2^52)
        1 => (1.0, (2251799813685120.0, 2251799813685120.0), (4503599627370496.0, 0.0), (0.0, 4503599627370496.0)),
        // nearly parallel long segment far from the origin, steps of 2^-20
        2 => (1048576.0, (100000000.0, 100000000.5), (0.0, 0.5), (200000000.0, 200000000.5)),
        // small frame: steps of 2^-30 around (1,1) against the diagonal through the origin
        _ => (1073741824.0, (1.0, 1.0), (-3.0, -3.0), (17.0, 17.0)),
    };
    let (i, j) = (s.u8(), s.u8());
    let ulp = 1.0 / scale_inv;
    let p = coord! { x: base.0 + (i as f64) * ulp, y: base.1 + (j as f64) * ulp };
    let toi = |v: f64| -> i128 { (v * scale_inv) as i128 };
    unsafe {
        crate::stubs::SCALE_INV = scale_inv;
        crate::stubs::BOUND = 1.0e18 * 4.0;
    }
    Frame {
        p,
        q: coord! {x: q.0, y: q.1},
        r: coord! {x: r.0, y: r.1},
        ip: (toi(base.0) + i as i128, toi(base.1) + j as i128),
        iq: (toi(q.0), toi(q.1)),
        ir: (toi(r.0), toi(r.1)),
    }
}

fn det128(a: (i128, i128), b: (i128, i128), c: (i128, i128)) -> i128 {
    (b.0 - a.0) * (c.1 - a.1) - (b.1 - a.1) * (c.0 - a.0)
}
fn sg(d: i128) -> i8 {
    if d > 0 {
        1
    } else if d < 0 {
        -1
    } else {
        0
    }
}

/// the float kernel itself on the frame
pub fn float_kernel<S: Src>(s: &mut S, k: usize) {
    let f = frame(s, k);
    let want = ori(sg(det128(f.iq, f.ir, f.ip)));
    assert!(<f64 as GeoNum>::Ker::orient2d(f.q, f.r, f.p) == want, "f64 kernel differs from the exact sign on an ill-conditioned frame");
    let want2 = ori(sg(det128(f.ip, f.iq, f.ir)));
    assert!(<f64 as GeoNum>::Ker::orient2d(f.p, f.q, f.r) == want2, "f64 kernel (rotated operands) differs from the exact sign");
    vcover!(want == Orientation::Collinear, "exactly collinear");
    vcover!(want == Orientation::Clockwise, "clockwise by less than rounding error");
    vcover!(want == Orientation::CounterClockwise, "counter-clockwise by less than rounding error");
}

/// point-on-segment and segment-segment intersects
pub fn float_line<S: Src>(s: &mut S, k: usize) {
    let f = frame2(s, k, true);
    let d = det128(f.iq, f.ir, f.ip);
    let l = Line::new(f.q, f.r);
    let inbox = |p: (i128, i128), a: (i128, i128), b: (i128, i128)| p.0 >= a.0.min(b.0) && p.0 <= a.0.max(b.0) && p.1 >= a.1.min(b.1) && p.1 <= a.1.max(b.1);
    let on = d == 0 && inbox(f.ip, f.iq, f.ir);
    assert!(l.intersects(&f.p) == on, "Line.intersects(Coord) flipped by rounding");
    assert!(l.contains(&f.p) == (on && f.ip != f.iq && f.ip != f.ir), "Line.contains(Coord) flipped by rounding");
    // a segment from p to the concrete corner (r.x, q.y), which is off the line q-r
    let far = coord! { x: f.r.x, y: f.q.y };
    let ifar = (f.ir.0, f.iq.1);
    let l2 = Line::new(f.p, far);
    let (o1, o2) = (sg(d), sg(det128(f.iq, f.ir, ifar)));
    let (o3, o4) = (sg(det128(f.ip, ifar, f.iq)), sg(det128(f.ip, ifar, f.ir)));
    let want = (o1 * o2 <= 0 && o3 * o4 <= 0) && !(o1 == 0 && o2 == 0);
    assert!(l.intersects(&l2) == want, "Line.intersects(Line) flipped by rounding");
    assert!(l2.intersects(&l) == want, "Line.intersects(Line) not symmetric on an ill-conditioned frame");
    vcover!(on, "query exactly on the long segment");
    vcover!(!on && d != 0, "query off the segment by less than rounding error");
}

/// a zero-length segment at p against the long segment, in either operand position
pub fn float_dot<S: Src>(s: &mut S, k: usize) {
    let f = frame2(s, k, true);
    let d = det128(f.iq, f.ir, f.ip);
    let l = Line::new(f.q, f.r);
    let inbox = f.ip.0 >= f.iq.0.min(f.ir.0) && f.ip.0 <= f.iq.0.max(f.ir.0) && f.ip.1 >= f.iq.1.min(f.ir.1) && f.ip.1 <= f.iq.1.max(f.ir.1);
    let on = d == 0 && inbox;
    let dot = Line::new(f.p, f.p);
    assert!(dot.intersects(&l) == on, "zero-length Line.intersects(Line) differs from point-on-segment");
    assert!(l.intersects(&dot) == on, "Line.intersects(zero-length Line) differs from point-on-segment");
    vcover!(!on && inbox, "zero-length segment inside the bounding box but off the long segment");
}

/// ring / triangle classification and winding of the thin triangle (q, r, p)
pub fn float_ring<S: Src>(s: &mut S, k: usize) {
    let f = frame(s, k);
    let d = det128(f.iq, f.ir, f.ip);
    vassume!(d != 0); // valid (non-degenerate) ring
    let ring = LineString::new(vec![f.q, f.r, f.p, f.q]);
    let w = ring.winding_order();
    assert!(w == Some(if d > 0 { WindingOrder::CounterClockwise } else { WindingOrder::Clockwise }), "winding_order flipped by rounding");
    // the midpoint-ish vertex p itself is on the boundary; q+ (one ulp step off q towards the inside) is decided exactly
    assert!(coord_pos_relative_to_ring(f.p, &ring) == CoordPos::OnBoundary, "ring vertex not on the boundary");
    let t = Triangle(f.q, f.r, f.p);
    assert!(!t.contains(&f.p), "Triangle.contains(vertex)");
    assert!(t.intersects(&f.p), "Triangle.intersects(vertex)");
    vcover!(d > 0, "counter-clockwise sliver");
    vcover!(d < 0, "clockwise sliver");
    core::mem::forget(ring);
}

/// a query point against the long edge of a fat triangle: q, r, apex far on the left side
pub fn float_triangle<S: Src>(s: &mut S, k: usize) {
    let f = frame2(s, k, true);
    let d = det128(f.iq, f.ir, f.ip);
    // apex = q rotated: clearly counter-clockwise of q->r
    let apex = coord! { x: f.q.x - (f.r.y - f.q.y), y: f.q.y + (f.r.x - f.q.x) };
    let t = Triangle(f.q, f.r, apex);
    let inbox = f.ip.0 >= f.iq.0.min(f.ir.0) && f.ip.0 <= f.iq.0.max(f.ir.0) && f.ip.1 >= f.iq.1.min(f.ir.1) && f.ip.1 <= f.iq.1.max(f.ir.1);
    vassume!(inbox && f.ip != f.iq && f.ip != f.ir);
    // near the edge q-r and far from the other two edges: inside iff strictly left of q->r
    assert!(t.contains(&f.p) == (d > 0), "Triangle.contains(Coord) flipped by rounding near an edge");
    assert!(t.intersects(&f.p) == (d >= 0), "Triangle.intersects(Coord) flipped by rounding near an edge");
    let ring = LineString::new(vec![f.q, f.r, apex, f.q]);
    let want = if d > 0 { CoordPos::Inside } else if d == 0 { CoordPos::OnBoundary } else { CoordPos::Outside };
    assert!(coord_pos_relative_to_ring(f.p, &ring) == want, "coord_pos_relative_to_ring flipped by rounding near an edge");
    vcover!(d == 0, "query exactly on the edge");
    vcover!(d > 0, "query inside by less than rounding error");
    vcover!(d < 0, "query outside by less than rounding error");
    core::mem::forget(ring);
}

/// f32 instantiation: casts to f64 must be lossless and reach the same predicate
pub fn float_kernel_f32<S: Src>(s: &mut S) {
    // p = (0.5 + i*2^-24, 0.5 + j*2^-24), q=(12,12), r=(24,24)
    let (i, j) = (s.u8(), s.u8());
    unsafe {
        crate::stubs::SCALE_INV = 16777216.0;
        crate::stubs::BOUND = 1.0e12;
    }
    let ulp = 1.0f32 / 16777216.0;
    let p: Coord<f32> = coord! { x: 0.5 + (i as f32) * ulp, y: 0.5 + (j as f32) * ulp };
    let (q, r): (Coord<f32>, Coord<f32>) = (coord! {x: 12.0, y: 12.0}, coord! {x: 24.0, y: 24.0});
    let k = 16777216i128;
    let ip = (k / 2 + i as i128, k / 2 + j as i128);
    let want = ori(sg(det128((12 * k, 12 * k), (24 * k, 24 * k), ip)));
    assert!(<f32 as GeoNum>::Ker::orient2d(q, r, p) == want, "f32 kernel differs from the exact sign");
    vcover!(want == Orientation::Collinear, "exactly collinear");
    vcover!(want == Orientation::Clockwise, "clockwise");
}

/// signed zeros: every zero coordinate of a simple ring carries a symbolic sign; -0.0 == +0.0, so
/// the ring is the same point set and winding / point location must not change
pub fn winding_signed_zero<S: Src>(s: &mut S, n: i8) {
    let (a, b, c, d) = (gp(s, n), gp(s, n), gp(s, n), gp(s, n));
    let q = gp(s, n);
    let pts = [a, b, c, d, a];
    vassume!(ring_is_simple(&pts));
    let mut z = |v: W| -> f64 {
        let neg = s.bool();
        if v == 0 && neg {
            -0.0
        } else {
            v as f64
        }
    };
    let cs = [coord! {x: z(a.0), y: z(a.1)}, coord! {x: z(b.0), y: z(b.1)}, coord! {x: z(c.0), y: z(c.1)}, coord! {x: z(d.0), y: z(d.1)}];
    let ring = LineString::new(vec![cs[0], cs[1], cs[2], cs[3], cs[0]]);
    let a2 = twice_area(&pts);
    let want = if a2 > 0 { WindingOrder::CounterClockwise } else { WindingOrder::Clockwise };
    assert!(ring.winding_order() == Some(want), "winding_order of a ring with a negative-zero coordinate differs from the sign of its exact area");
    let qc: Coord<f64> = coord! {x: z(q.0), y: z(q.1)};
    let wantp = match ring_pos(q, &pts) {
        Pos::Interior => CoordPos::Inside,
        Pos::Boundary => CoordPos::OnBoundary,
        Pos::Exterior => CoordPos::Outside,
    };
    assert!(coord_pos_relative_to_ring(qc, &ring) == wantp, "coord_pos_relative_to_ring changes with the sign of a zero coordinate");
    vcover!(cs[3].x == 0.0 && cs[3].x.is_sign_negative() && cs[0].x == 0.0 && !cs[0].x.is_sign_negative(), "a -0.0 abscissa next to a +0.0 abscissa on the leftmost edge");
    core::mem::forget(ring);
}

/// signed zeros on the fixed-size types: position / intersects of a query against a Rect, a Line and
/// a Triangle whose zero coordinates (and the query's) carry symbolic signs must be those of the
/// integer values (-0.0 and +0.0 are the same real number)
pub fn fixed_signed_zero<S: Src>(s: &mut S, n: i8) {
    use geo::coordinate_position::CoordinatePosition;
    let (a, b, c, q) = (gp(s, n), gp(s, n), gp(s, n), gp(s, n));
    let mut z = |v: W| -> f64 {
        let neg = s.bool();
        if v == 0 && neg {
            -0.0
        } else {
            v as f64
        }
    };
    let (ca, cb, cc, cq): (Coord<f64>, Coord<f64>, Coord<f64>, Coord<f64>) =
        (coord! {x: z(a.0), y: z(a.1)}, coord! {x: z(b.0), y: z(b.1)}, coord! {x: z(c.0), y: z(c.1)}, coord! {x: z(q.0), y: z(q.1)});
    let to = |p: Pos| match p {
        Pos::Interior => CoordPos::Inside,
        Pos::Boundary => CoordPos::OnBoundary,
        Pos::Exterior => CoordPos::Outside,
    };
    let (mn, mx) = ((a.0.min(b.0), a.1.min(b.1)), (a.0.max(b.0), a.1.max(b.1)));
    let r = geo_types::Rect::new(ca, cb);
    let wr = rect_pos(q, mn, mx);
    assert!(r.coordinate_position(&cq) == to(wr), "Rect coordinate_position changes with the sign of a zero coordinate");
    assert!(r.intersects(&cq) == (wr != Pos::Exterior), "Rect intersects(Coord) changes with the sign of a zero coordinate");
    let l = Line::new(ca, cb);
    let wl = line_pos(q, a, b);
    assert!(l.coordinate_position(&cq) == to(wl), "Line coordinate_position changes with the sign of a zero coordinate");
    assert!(l.intersects(&cq) == (wl != Pos::Exterior), "Line intersects(Coord) changes with the sign of a zero coordinate");
    if orient(a, b, c) != 0 {
        let t = Triangle(ca, cb, cc);
        let wt = tri_pos(q, a, b, c);
        assert!(t.coordinate_position(&cq) == to(wt), "Triangle coordinate_position changes with the sign of a zero coordinate");
        assert!(t.intersects(&cq) == (wt != Pos::Exterior), "Triangle intersects(Coord) changes with the sign of a zero coordinate");
    }
    vcover!(cq.x == 0.0 && cq.x.is_sign_negative() && mn.0 == 0 && !r.min().x.is_sign_negative() && wr == Pos::Boundary, "a -0.0 query abscissa on the +0.0 edge of the rectangle");
}

harnesses! {
    fn c03_orient_int_g8(s) { orient_int(s) }
    #[kani::unwind(6)] #[kani::stub(robust::orient2d, crate::stubs::orient2d_small)] fn c03_fixed_signed_zero_g1(s) { fixed_signed_zero(s, 1) }
    #[kani::unwind(8)] #[kani::stub(robust::orient2d, crate::stubs::orient2d_small)] fn c03_signed_zero_g1(s) { winding_signed_zero(s, 1) }

    #[kani::stub(robust::orient2d, crate::stubs::orient2d_exact)] fn c03_kernel_f64_fr0(s) { float_kernel(s, 0) }
    #[kani::stub(robust::orient2d, crate::stubs::orient2d_exact)] fn c03_kernel_f64_fr1(s) { float_kernel(s, 1) }
    #[kani::stub(robust::orient2d, crate::stubs::orient2d_exact)] fn c03_kernel_f64_fr2(s) { float_kernel(s, 2) }
    #[kani::stub(robust::orient2d, crate::stubs::orient2d_exact)] fn c03_kernel_f64_fr3(s) { float_kernel(s, 3) }
    #[kani::stub(robust::orient2d, crate::stubs::orient2d_exact)] fn c03_kernel_f32(s) { float_kernel_f32(s) }

    #[kani::stub(robust::orient2d, crate::stubs::orient2d_exact)] fn c03_dot_f64_fr0(s) { float_dot(s, 0) }
    #[kani::stub(robust::orient2d, crate::stubs::orient2d_exact)] fn c03_dot_f64_fr1(s) { float_dot(s, 1) }
    #[kani::stub(robust::orient2d, crate::stubs::orient2d_exact)] fn c03_dot_f64_fr2(s) { float_dot(s, 2) }
    #[kani::stub(robust::orient2d, crate::stubs::orient2d_exact)] fn c03_dot_f64_fr3(s) { float_dot(s, 3) }
    #[kani::stub(robust::orient2d, crate::stubs::orient2d_exact)] fn c03_line_f64_fr0(s) { float_line(s, 0) }
    #[kani::stub(robust::orient2d, crate::stubs::orient2d_exact)] fn c03_line_f64_fr1(s) { float_line(s, 1) }
    #[kani::stub(robust::orient2d, crate::stubs::orient2d_exact)] fn c03_line_f64_fr2(s) { float_line(s, 2) }
    #[kani::stub(robust::orient2d, crate::stubs::orient2d_exact)] fn c03_line_f64_fr3(s) { float_line(s, 3) }

    #[kani::unwind(6)] #[kani::stub(robust::orient2d, crate::stubs::orient2d_exact)] fn c03_ring_f64_fr0(s) { float_ring(s, 0) }
    #[kani::unwind(6)] #[kani::stub(robust::orient2d, crate::stubs::orient2d_exact)] fn c03_ring_f64_fr1(s) { float_ring(s, 1) }
    #[kani::unwind(6)] #[kani::stub(robust::orient2d, crate::stubs::orient2d_exact)] fn c03_ring_f64_fr2(s) { float_ring(s, 2) }
    #[kani::unwind(6)] #[kani::stub(robust::orient2d, crate::stubs::orient2d_exact)] fn c03_ring_f64_fr3(s) { float_ring(s, 3) }

    #[kani::unwind(6)] #[kani::stub(robust::orient2d, crate::stubs::orient2d_exact)] fn c03_triangle_f64_fr0(s) { float_triangle(s, 0) }
    #[kani::unwind(6)] #[kani::stub(robust::orient2d, crate::stubs::orient2d_exact)] fn c03_triangle_f64_fr1(s) { float_triangle(s, 1) }
    #[kani::unwind(6)] #[kani::stub(robust::orient2d, crate::stubs::orient2d_exact)] fn c03_triangle_f64_fr2(s) { float_triangle(s, 2) }
    #[kani::unwind(6)] #[kani::stub(robust::orient2d, crate::stubs::orient2d_exact)] fn c03_triangle_f64_fr3(s) { float_triangle(s, 3) }

    #[kani::stub(robust::orient2d, crate::stubs::orient2d_exact)] fn c03_sanity_must_fail(s) {
        float_kernel(s, 0);
        assert!(false, "sanity twin reached its end");
    }
}
