//! Builders: symbolic grid points shared between the oracle (i16 pairs) and geo's types.
use crate::oracle::{P, W};
use crate::Src;
use geo_types::{coord, Coord, Line, LineString, Polygon};

/// integer instantiation used for the GeoNum-generic algorithms (SimpleKernel); i16 keeps the
/// multipliers CBMC has to bit-blast 16 bits wide, the generic source is the same for i32/i64
pub type I = i16;

/// point of G(n) = {-n..n}^2
pub fn gp<S: Src>(s: &mut S, n: i8) -> P {
    let x = s.i8();
    let y = s.i8();
    vassume!(x >= -n && x <= n && y >= -n && y <= n);
    (x as W, y as W)
}

/// point with x in xlo..=xhi (case-split support) and y in -n..=n
pub fn gp_x<S: Src>(s: &mut S, xlo: i8, xhi: i8, n: i8) -> P {
    let x = s.i8();
    let y = s.i8();
    vassume!(x >= xlo && x <= xhi && y >= -n && y <= n);
    (x as W, y as W)
}

#[inline]
pub fn ci(p: P) -> Coord<I> {
    coord! { x: p.0 as I, y: p.1 as I }
}
#[inline]
pub fn cf(p: P) -> Coord<f32> {
    coord! { x: p.0 as f32, y: p.1 as f32 }
}
#[inline]
pub fn cd(p: P) -> Coord<f64> {
    coord! { x: p.0 as f64, y: p.1 as f64 }
}

pub fn ls_i(pts: &[P]) -> LineString<I> {
    let mut v = Vec::with_capacity(pts.len());
    for p in pts {
        v.push(ci(*p));
    }
    LineString::new(v)
}
pub fn ls_f(pts: &[P]) -> LineString<f32> {
    let mut v = Vec::with_capacity(pts.len());
    for p in pts {
        v.push(cf(*p));
    }
    LineString::new(v)
}
pub fn line_i(a: P, b: P) -> Line<I> {
    Line::new(ci(a), ci(b))
}
pub fn line_f(a: P, b: P) -> Line<f32> {
    Line::new(cf(a), cf(b))
}
/// polygon from an already closed shell and closed holes
pub fn poly_i(shell: &[P], holes: &[&[P]]) -> Polygon<I> {
    let mut hs = Vec::with_capacity(holes.len());
    for h in holes {
        hs.push(ls_i(h));
    }
    Polygon::new(ls_i(shell), hs)
}
pub fn poly_f(shell: &[P], holes: &[&[P]]) -> Polygon<f32> {
    let mut hs = Vec::with_capacity(holes.len());
    for h in holes {
        hs.push(ls_f(h));
    }
    Polygon::new(ls_f(shell), hs)
}
