//! Builders: symbolic grid points shared between the oracle (i16 pairs) and geo's types.
use crate::oracle::{P, W};
use crate::Src;
use geo_types::{coord, Coord, Line, LineString, Polygon};

/// integer instantiation used for the GeoNum-generic algorithms (SimpleKernel); i16 keeps the
/// multipliers CBMC has to bit-blast 16 bits wide, the generic source is the same for i32/i64
pub type I = i16;

/// point of G(n) = {-n..n}^2
pub fn gp<S: Src>(s: &mut S, n: i8) -> P {
    let x = s.i8();
    let y = s.i8();
    vassume!(x >= -n && x <= n && y >= -n && y <= n);
    (x as W, y as W)
}

/// point with x in xlo..=xhi (case-split support) and y in -n..=n
pub fn gp_x<S: Src>(s: &mut S, xlo: i8, xhi: i8, n: i8) -> P {
    let x = s.i8();
    let y = s.i8();
    vassume!(x >= xlo && x <= xhi && y >= -n && y <= n);
    (x as W, y as W)
}

#[inline]
pub fn ci(p: P) -> Coord<I> {
    coord! { x: p.0 as I, y: p.1 as I }
}
#[inline]
pub fn cf(p: P) -> Coord<f32> {
    coord! { x: p.0 as f32, y: p.1 as f32 }
}
#[inline]
pub fn cd(p: P) -> Coord<f64> {
    coord! { x: p.0 as f64, y: p.1 as f64 }
}

pub fn ls_i(pts: &[P]) -> LineString<I> {
    let mut v = Vec::with_capacity(pts.len());
    for p in pts {
        v.push(ci(*p));
    }
    LineString::new(v)
}
pub fn ls_f(pts: &[P]) -> LineString<f32> {
    let mut v = Vec::with_capacity(pts.len());
    for p in pts {
        v.push(cf(*p));
    }
    LineString::new(v)
}
pub fn line_i(a: P, b: P) -> Line<I> {
    Line::new(ci(a), ci(b))
}
pub fn line_f(a: P, b: P) -> Line<f32> {
    Line::new(cf(a), cf(b))
}
/// Vec of rings as a `vec![..]` literal (one typed allocation).  CBMC is an order of magnitude
/// cheaper on this than on `with_capacity` + `push` of heap-owning elements (measured: a polygon
/// whose hole vector was pushed made `interiors_mut` run out of 10 GB; the literal form takes 2 s).
pub fn rings_vec<T: geo_types::CoordNum>(mut it: impl FnMut(usize) -> LineString<T>, n: usize) -> Vec<LineString<T>> {
    match n {
        0 => vec![],
        1 => vec![it(0)],
        2 => vec![it(0), it(1)],
        _ => vec![it(0), it(1), it(2)],
    }
}
/// polygon from an already closed shell and closed holes
pub fn poly_i(shell: &[P], holes: &[&[P]]) -> Polygon<I> {
    Polygon::new(ls_i(shell), rings_vec(|k| ls_i(holes[k]), holes.len()))
}
pub fn poly_f(shell: &[P], holes: &[&[P]]) -> Polygon<f32> {
    Polygon::new(ls_f(shell), rings_vec(|k| ls_f(holes[k]), holes.len()))
}
