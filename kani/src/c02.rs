//! C02 — Intersects / Contains / Within / coordinate_position agree with DE-9IM.
//!
//! Instantiation `T = i16` (these impls are GeoNum-generic; integers use SimpleKernel — the float
//! kernel's delegation is C03's subject).  Every operand is a concrete shape with symbolic grid
//! coordinates constrained only by the property's own validity precondition; results are compared
//! with the exact reference model of `oracle.rs`.
use crate::gen::*;
use crate::oracle::*;
use crate::Src;
use geo::coordinate_position::{CoordPos, CoordinatePosition};
use geo::{Contains, Intersects, Within};
use geo_types::{Geometry, MultiLineString, MultiPoint, MultiPolygon, Point, Rect, Triangle};

#[inline]
pub fn cv(p: Pos) -> CoordPos {
    match p {
        Pos::Interior => CoordPos::Inside,
        Pos::Boundary => CoordPos::OnBoundary,
        Pos::Exterior => CoordPos::Outside,
    }
}

/// position and the Coord forms of intersects / contains must tell the same story; with
/// `$full` also the Point forms and Within (thin wrappers: checked on the small-grid variants)
macro_rules! check_point_queries {
    ($g:expr, $q:expr, $want:expr, $full:expr) => {{
        let want: Pos = $want;
        let qc = ci($q);
        assert!($g.coordinate_position(&qc) == cv(want), "coordinate_position differs from the exact point-set position");
        assert!($g.intersects(&qc) == (want != Pos::Exterior), "intersects(Coord) differs from 'not exterior'");
        assert!($g.contains(&qc) == (want == Pos::Interior), "contains(Coord) differs from 'in the interior'");
        if $full {
            let qp = Point(qc);
            assert!($g.intersects(&qp) == (want != Pos::Exterior), "intersects(Point) differs from 'not exterior'");
            assert!(qp.intersects(&$g) == (want != Pos::Exterior), "Point.intersects(g) is not symmetric");
            assert!($g.contains(&qp) == (want == Pos::Interior), "contains(Point) differs from 'in the interior'");
            assert!(qp.is_within(&$g) == (want == Pos::Interior), "Point.is_within(g) differs from g.contains(Point)");
        }
    }};
}

// ------------------------------------------------------------------ coordinate position & point queries

pub fn pos_point<S: Src>(s: &mut S, n: i8, full: bool) {
    let (a, q) = (gp(s, n), gp(s, n));
    let g = Point(ci(a));
    let want = if a == q { Pos::Interior } else { Pos::Exterior };
    check_point_queries!(g, q, want, full);
    assert!(ci(a).coordinate_position(&ci(q)) == cv(want), "Coord.coordinate_position");
    vcover!(a == q, "query equals the point");
}

pub fn pos_line<S: Src>(s: &mut S, n: i8, full: bool) {
    let (a, b, q) = (gp(s, n), gp(s, n), gp(s, n));
    let g = line_i(a, b);
    let want = line_pos(q, a, b);
    check_point_queries!(g, q, want, full);
    vcover!(a == b && q == a, "degenerate line queried at its point");
    vcover!(a.0 == b.0 && a != b && want == Pos::Interior, "query inside a vertical segment");
    vcover!(want == Pos::Boundary, "query at an endpoint");
}

pub fn pos_rect<S: Src>(s: &mut S, n: i8, full: bool) {
    let (a, b, q) = (gp(s, n), gp(s, n), gp(s, n));
    vassume!(a.0 != b.0 && a.1 != b.1); // valid rect has area
    let g = Rect::new(ci(a), ci(b));
    let mn = (a.0.min(b.0), a.1.min(b.1));
    let mx = (a.0.max(b.0), a.1.max(b.1));
    let want = rect_pos(q, mn, mx);
    check_point_queries!(g, q, want, full);
    vcover!(want == Pos::Boundary && q.0 == mx.0, "query on the right edge");
    vcover!(q == mn, "query at the min corner");
}

/// `known`: None = whole domain; Some(true/false) = restricted to / excluding the class
/// "query strictly inside a vertical edge" (see KNOWN_FINDINGS.txt, used only while listed)
pub fn pos_triangle<S: Src>(s: &mut S, n: i8, full: bool) {
    let (a, b, c, q) = (gp(s, n), gp(s, n), gp(s, n), gp(s, n));
    vassume!(orient(a, b, c) != 0); // valid triangle
    let g = Triangle(ci(a), ci(b), ci(c)); // either orientation
    let want = tri_pos(q, a, b, c);
    check_point_queries!(g, q, want, full);
    vcover!(want == Pos::Boundary && a.0 == b.0 && in_open_segment(q, a, b), "query strictly inside a vertical edge");
    vcover!(want == Pos::Boundary && a.1 == b.1 && in_open_segment(q, a, b), "query strictly inside a horizontal edge");
    vcover!(q == c, "query at a vertex");
    vcover!(orient(a, b, c) < 0 && want == Pos::Interior, "clockwise triangle, query inside");
}

fn simple3(a: P, b: P, c: P) -> bool {
    a != b && b != c && !(orient(a, b, c) == 0 && (on_segment(c, a, b) || on_segment(a, b, c)))
}

pub fn pos_ls3<S: Src>(s: &mut S, n: i8, full: bool) {
    let (a, b, c, q) = (gp(s, n), gp(s, n), gp(s, n), gp(s, n));
    vassume!(simple3(a, b, c));
    let pts = [a, b, c];
    let g = ls_i(&pts);
    let want = linestring_pos(q, &pts);
    check_point_queries!(g, q, want, full);
    vcover!(q == b, "query at the middle vertex");
    vcover!(q == c, "query at the last endpoint");
    vcover!(want == Pos::Interior && q != b && b.0 == c.0, "query inside a vertical second segment");
    core::mem::forget(g);
}

pub fn pos_ls2<S: Src>(s: &mut S, n: i8, full: bool) {
    let (a, b, q) = (gp(s, n), gp(s, n), gp(s, n));
    vassume!(a != b);
    let pts = [a, b];
    let g = ls_i(&pts);
    let want = linestring_pos(q, &pts);
    check_point_queries!(g, q, want, full);
    // representation invariance: Line vs 2-point LineString
    assert!(line_i(a, b).coordinate_position(&ci(q)) == g.coordinate_position(&ci(q)), "Line and 2-point LineString disagree");
    vcover!(want == Pos::Boundary, "query at an endpoint");
    core::mem::forget(g);
}

/// closed 3-ring taken as a LineString: no boundary
pub fn pos_ls4_closed<S: Src>(s: &mut S, n: i8, full: bool) {
    let (a, b, c, q) = (gp(s, n), gp(s, n), gp(s, n), gp(s, n));
    vassume!(orient(a, b, c) != 0);
    let pts = [a, b, c, a];
    let g = ls_i(&pts);
    let want = linestring_pos(q, &pts);
    check_point_queries!(g, q, want, full);
    vcover!(q == a, "query at the closing vertex of a closed line string");
    vcover!(want == Pos::Exterior && tri_pos(q, a, b, c) == Pos::Interior, "query enclosed by the ring but not on it");
    core::mem::forget(g);
}

pub fn pos_ls4_open<S: Src>(s: &mut S, n: i8, full: bool) {
    let (a, b, c, d, q) = (gp(s, n), gp(s, n), gp(s, n), gp(s, n), gp(s, n));
    vassume!(simple3(a, b, c) && simple3(b, c, d) && a != d && !segs_share_point(a, b, c, d));
    let pts = [a, b, c, d];
    let g = ls_i(&pts);
    let want = linestring_pos(q, &pts);
    check_point_queries!(g, q, want, full);
    vcover!(q == d, "query at the last endpoint");
    vcover!(q == c, "query at an inner vertex");
    core::mem::forget(g);
}

/// polygon with a simple 3-ring shell, any start vertex / direction
pub fn pos_poly3<S: Src>(s: &mut S, n: i8, full: bool) {
    let (a, b, c, q) = (gp(s, n), gp(s, n), gp(s, n), gp(s, n));
    vassume!(orient(a, b, c) != 0);
    let ring = [a, b, c, a];
    let g = poly_i(&ring, &[]);
    let want = tri_pos(q, a, b, c);
    assert!(ring_pos(q, &ring) == want, "oracle self-check: crossing number vs half-planes");
    check_point_queries!(g, q, want, full);
    vcover!(want == Pos::Boundary && a.0 == b.0 && in_open_segment(q, a, b), "query strictly inside a vertical edge");
    vcover!(want == Pos::Interior && orient(a, b, c) < 0, "clockwise shell, query inside");
    vcover!(q == a, "query at the start/closing vertex");
    core::mem::forget(g);
}

/// representation invariance: Geometry enum wrapper, Triangle vs its polygon form, singleton Multi*
pub fn pos_wrappers<S: Src>(s: &mut S, n: i8) {
    let (a, b, c, q) = (gp(s, n), gp(s, n), gp(s, n), gp(s, n));
    vassume!(orient(a, b, c) != 0);
    let want = cv(tri_pos(q, a, b, c));
    let qc = ci(q);
    let t = Triangle(ci(a), ci(b), ci(c));
    let p = t.to_polygon();
    assert!(p.coordinate_position(&qc) == want, "Triangle::to_polygon position");
    let gp_ = Geometry::Polygon(p);
    assert!(gp_.coordinate_position(&qc) == want, "Geometry::Polygon wrapper changes the position");
    assert!(Geometry::Triangle(t).coordinate_position(&qc) == want, "Geometry::Triangle wrapper changes the position");
    let l = Geometry::Line(line_i(a, b));
    assert!(l.coordinate_position(&qc) == cv(line_pos(q, a, b)), "Geometry::Line wrapper changes the position");
    vcover!(want == CoordPos::OnBoundary, "query on the boundary");
    core::mem::forget(gp_);
}

pub fn pos_poly4<S: Src>(s: &mut S, n: i8, full: bool) {
    let (a, b, c, d, q) = (gp(s, n), gp(s, n), gp(s, n), gp(s, n), gp(s, n));
    let ring = [a, b, c, d, a];
    vassume!(ring_is_simple(&ring));
    let g = poly_i(&ring, &[]);
    let want = ring_pos(q, &ring);
    check_point_queries!(g, q, want, full);
    vcover!(want == Pos::Interior && twice_area(&ring) < 0, "clockwise quadrilateral, query inside");
    vcover!(want == Pos::Exterior && orient(a, b, c) * orient(b, c, d) < 0, "concave quadrilateral, query outside");
    vcover!(want == Pos::Boundary && q != a && q != b && q != c && q != d, "query inside an edge");
    core::mem::forget(g);
}

/// symbolic triangular shell around a concrete triangular hole
pub fn pos_poly_hole<S: Src>(s: &mut S, n: i8, full: bool) {
    let (a, b, c, q) = (gp(s, n), gp(s, n), gp(s, n), gp(s, n));
    let hole: [P; 4] = [(-1, -1), (1, -1), (-1, 1), (-1, -1)];
    vassume!(orient(a, b, c) != 0);
    vassume!(tri_pos(hole[0], a, b, c) == Pos::Interior && tri_pos(hole[1], a, b, c) == Pos::Interior && tri_pos(hole[2], a, b, c) == Pos::Interior);
    let shell = [a, b, c, a];
    let g = poly_i(&shell, &[&hole]);
    let want = polygon_pos(q, &shell, &[&hole]);
    check_point_queries!(g, q, want, full);
    vcover!(q == (-1, -1), "query at a hole vertex");
    vcover!(q == (0, 0), "query inside an edge of the hole");
    vcover!(want == Pos::Interior, "query in the polygon interior");
    core::mem::forget(g);
}

pub fn pos_multipoint<S: Src>(s: &mut S) {
    let (a, b, q) = (gp(s, 8), gp(s, 8), gp(s, 8));
    let g = MultiPoint(vec![Point(ci(a)), Point(ci(b))]);
    let want = if q == a || q == b { Pos::Interior } else { Pos::Exterior };
    assert!(g.coordinate_position(&ci(q)) == cv(want), "MultiPoint position");
    assert!(g.contains(&ci(q)) == (want == Pos::Interior), "MultiPoint contains(Coord)");
    assert!(g.contains(&Point(ci(q))) == (want == Pos::Interior), "MultiPoint contains(Point)");
    assert!(g.intersects(&ci(q)) == (want == Pos::Interior), "MultiPoint intersects(Coord)");
    vcover!(q == b && a != b, "query equals the second member");
    core::mem::forget(g);
}

/// two 2-point members; valid = they meet only at end points (mod-2 rule decides the boundary)
/// `shared`: Some(false) = excluding / Some(true) = restricted to the class of the listed finding
/// "query at an end point shared by an even number of members" (crate::known)
pub fn pos_mls<S: Src>(s: &mut S, n: i8, shared: Option<bool>) {
    let (a, b, c, d, q) = (gp(s, n), gp(s, n), gp(s, n), gp(s, n), gp(s, n));
    vassume!(a != b && c != d);
    // members may share end points, nothing else (no crossing, no T-junction, no overlap)
    vassume!(!in_open_segment(a, c, d) && !in_open_segment(b, c, d) && !in_open_segment(c, a, b) && !in_open_segment(d, a, b));
    let proper = orient(a, b, c) * orient(a, b, d) < 0 && orient(c, d, a) * orient(c, d, b) < 0;
    vassume!(!proper);
    vassume!(!((a == c && b == d) || (a == d && b == c))); // not the same segment twice
    let g = MultiLineString(vec![ls_i(&[a, b]), ls_i(&[c, d])]);
    // mod-2 rule: an end point of an odd number of members is boundary
    let ends = (q == a) as u8 + (q == b) as u8 + (q == c) as u8 + (q == d) as u8;
    if let Some(k) = shared {
        vassume!(crate::known::mls_query_at_evenly_shared_endpoint(ends) == k);
    }
    let on = on_segment(q, a, b) || on_segment(q, c, d);
    let want = if !on {
        Pos::Exterior
    } else if ends % 2 == 1 {
        Pos::Boundary
    } else {
        Pos::Interior
    };
    assert!(g.coordinate_position(&ci(q)) == cv(want), "MultiLineString position (mod-2 boundary rule)");
    assert!(g.intersects(&ci(q)) == on, "MultiLineString intersects(Coord)");
    assert!(g.contains(&Point(ci(q))) == (want == Pos::Interior), "MultiLineString contains(Point) differs from 'in the interior' (mod-2 rule)");
    if shared != Some(false) {
        vcover!(ends == 2, "query at an end point shared by both members");
    }
    if shared != Some(true) {
        vcover!(ends == 1, "query at an unshared end point");
        vcover!(want == Pos::Interior, "query inside a member");
    }
    core::mem::forget(g);
}

/// two valid triangles with disjoint interiors that may touch at points; query anywhere
pub fn pos_mpoly<S: Src>(s: &mut S, n: i8, touching: bool) {
    let t1: [P; 4] = [(0, 0), (2, 0), (0, 2), (0, 0)];
    // second member: concrete, either touching the first at the vertex (0,0) or apart
    let t2: [P; 4] = if touching { [(0, 0), (-3, 0), (0, -3), (0, 0)] } else { [(-1, -1), (-4, -1), (-1, -4), (-1, -1)] };
    let q = gp(s, n);
    let g = MultiPolygon(vec![poly_i(&t1, &[]), poly_i(&t2, &[])]);
    let (p1, p2) = (ring_pos(q, &t1), ring_pos(q, &t2));
    let want = if p1 == Pos::Interior || p2 == Pos::Interior {
        Pos::Interior
    } else if p1 == Pos::Boundary || p2 == Pos::Boundary {
        Pos::Boundary
    } else {
        Pos::Exterior
    };
    assert!(g.coordinate_position(&ci(q)) == cv(want), "MultiPolygon position");
    assert!(g.intersects(&ci(q)) == (want != Pos::Exterior), "MultiPolygon intersects(Coord)");
    assert!(g.contains(&ci(q)) == (want == Pos::Interior), "MultiPolygon contains(Coord)");
    assert!(g.contains(&Point(ci(q))) == (want == Pos::Interior), "MultiPolygon contains(Point)");
    vcover!(q == (0, 0), "query at the vertex (shared by both members when touching)");
    vcover!(p2 == Pos::Interior, "query inside the second member");
    core::mem::forget(g);
}

// ------------------------------------------------------------------ intersects between extended operands

pub fn int_line_line<S: Src>(s: &mut S, n: i8) {
    let (a, b, c, d) = (gp(s, n), gp(s, n), gp(s, n), gp(s, n));
    let (l1, l2) = (line_i(a, b), line_i(c, d));
    let want = segs_share_point(a, b, c, d);
    assert!(l1.intersects(&l2) == want, "Line.intersects(Line) differs from 'share a point'");
    assert!(l2.intersects(&l1) == want, "Line.intersects(Line) is not symmetric");
    vcover!(want && orient(a, b, c) == 0 && orient(a, b, d) == 0 && a != b && c != d, "collinear overlap or abutting");
    vcover!(a == b && want, "degenerate first operand on the second");
    vcover!(!want && orient(a, b, c) == 0 && orient(a, b, d) == 0 && a != b, "collinear but disjoint");
    vcover!(want && in_open_segment(c, a, b) && orient(a, b, d) != 0, "T-junction");
}

/// case-split on the first x coordinate: x(a) == x0
pub fn int_line_rect<S: Src>(s: &mut S, n: i8, x0: i8) {
    let a = gp_x(s, x0, x0, n);
    let (b, c, d) = (gp(s, n), gp(s, n), gp(s, n));
    vassume!(c.0 != d.0 && c.1 != d.1);
    let l = line_i(a, b);
    let r = Rect::new(ci(c), ci(d));
    let mn = (c.0.min(d.0), c.1.min(d.1));
    let mx = (c.0.max(d.0), c.1.max(d.1));
    let corners = [mn, (mx.0, mn.1), mx, (mn.0, mx.1), mn];
    // the rect is a filled region: segment meets it iff an endpoint is inside-or-on or it crosses an edge
    let mut want = rect_pos(a, mn, mx) != Pos::Exterior || rect_pos(b, mn, mx) != Pos::Exterior;
    let mut i = 0;
    while i < 4 {
        if segs_share_point(a, b, corners[i], corners[i + 1]) {
            want = true;
        }
        i += 1;
    }
    assert!(r.intersects(&l) == want, "Rect.intersects(Line) differs from 'share a point'");
    assert!(l.intersects(&r) == want, "Line.intersects(Rect) is not symmetric");
    if n >= 2 {
        vcover!(want && rect_pos(a, mn, mx) == Pos::Exterior && rect_pos(b, mn, mx) == Pos::Exterior, "segment crosses the rect with both ends outside");
    }
    vcover!(!want, "disjoint");
}

pub fn int_rect_rect<S: Src>(s: &mut S) {
    let (a, b, c, d) = (gp(s, 4), gp(s, 4), gp(s, 4), gp(s, 4));
    let (r1, r2) = (Rect::new(ci(a), ci(b)), Rect::new(ci(c), ci(d)));
    let ov = |lo1: W, hi1: W, lo2: W, hi2: W| lo1.max(lo2) <= hi1.min(hi2);
    let want = ov(a.0.min(b.0), a.0.max(b.0), c.0.min(d.0), c.0.max(d.0)) && ov(a.1.min(b.1), a.1.max(b.1), c.1.min(d.1), c.1.max(d.1));
    assert!(r1.intersects(&r2) == want, "Rect.intersects(Rect)");
    assert!(r2.intersects(&r1) == want, "Rect.intersects(Rect) is not symmetric");
    // contains: valid (positive-area) rects: b inside-or-equal a
    if a.0 != b.0 && a.1 != b.1 && c.0 != d.0 && c.1 != d.1 {
        let inside = a.0.min(b.0) <= c.0.min(d.0) && c.0.max(d.0) <= a.0.max(b.0) && a.1.min(b.1) <= c.1.min(d.1) && c.1.max(d.1) <= a.1.max(b.1);
        assert!(r1.contains(&r2) == inside, "Rect.contains(Rect) differs from the subset test");
        assert!(r2.is_within(&r1) == inside, "Rect.is_within(Rect) differs from contains flipped");
        vcover!(inside && r1 != r2, "strictly nested or sharing an edge");
    }
    vcover!(want && a.0.max(b.0) == c.0.min(d.0), "rects touching along x");
}

pub fn int_line_triangle<S: Src>(s: &mut S, n: i8) {
    let (p, q) = (gp(s, n), gp(s, n));
    // concrete valid triangle, symbolic segment
    let (a, b, c): (P, P, P) = ((-1, -1), (2, -1), (-1, 2));
    let t = Triangle(ci(a), ci(b), ci(c));
    let l = line_i(p, q);
    let want = tri_pos(p, a, b, c) != Pos::Exterior
        || tri_pos(q, a, b, c) != Pos::Exterior
        || segs_share_point(p, q, a, b)
        || segs_share_point(p, q, b, c)
        || segs_share_point(p, q, c, a);
    assert!(l.intersects(&t) == want, "Line.intersects(Triangle) differs from 'share a point'");
    assert!(t.intersects(&l) == want, "Triangle.intersects(Line) is not symmetric");
    vcover!(want && tri_pos(p, a, b, c) == Pos::Exterior && tri_pos(q, a, b, c) == Pos::Exterior, "segment crosses the triangle with both ends outside");
    vcover!(!want, "disjoint");
}

pub fn int_ls_line<S: Src>(s: &mut S, n: i8) {
    let (a, b, c, p, q) = (gp(s, n), gp(s, n), gp(s, n), gp(s, n), gp(s, n));
    vassume!(simple3(a, b, c));
    let g = ls_i(&[a, b, c]);
    let l = line_i(p, q);
    let want = segs_share_point(a, b, p, q) || segs_share_point(b, c, p, q);
    assert!(g.intersects(&l) == want, "LineString.intersects(Line) differs from 'share a point'");
    assert!(l.intersects(&g) == want, "Line.intersects(LineString) is not symmetric");
    vcover!(want && !segs_share_point(a, b, p, q), "only the second segment is met");
    vcover!(!want, "disjoint");
    core::mem::forget(g);
}

pub fn int_poly_line<S: Src>(s: &mut S, n: i8) {
    let (p, q) = (gp(s, n), gp(s, n));
    // concrete valid polygon with a hole, symbolic segment
    let shell: [P; 5] = [(-3, -3), (3, -3), (3, 3), (-3, 3), (-3, -3)];
    let hole: [P; 4] = [(-1, -1), (2, -1), (-1, 2), (-1, -1)];
    let g = poly_i(&shell, &[&hole]);
    let l = line_i(p, q);
    // a segment meets the polygon iff an end point is not exterior or it meets some ring edge
    let mut want = polygon_pos(p, &shell, &[&hole]) != Pos::Exterior || polygon_pos(q, &shell, &[&hole]) != Pos::Exterior;
    let mut i = 0;
    while i < 4 {
        if segs_share_point(p, q, shell[i], shell[i + 1]) {
            want = true;
        }
        i += 1;
    }
    i = 0;
    while i < 3 {
        if segs_share_point(p, q, hole[i], hole[i + 1]) {
            want = true;
        }
        i += 1;
    }
    assert!(g.intersects(&l) == want, "Polygon.intersects(Line) differs from 'share a point'");
    assert!(l.intersects(&g) == want, "Line.intersects(Polygon) is not symmetric");
    vcover!(!want && ring_pos(p, &shell) == Pos::Interior, "segment (possibly degenerate) entirely inside the hole");
    vcover!(want, "meets");
    core::mem::forget(g);
}

// ------------------------------------------------------------------ direct Contains impls

/// s=[p,q] (p != q) is covered by the union of the segments `segs`: every unit sub-interval of the
/// projection on the non-constant axis lies in a collinear segment (vertices are lattice points)
fn seg_covered(p: P, q: P, segs: &[(P, P)], n: W) -> bool {
    let vertical = p.0 == q.0;
    let (lo, hi) = if vertical { (p.1.min(q.1), p.1.max(q.1)) } else { (p.0.min(q.0), p.0.max(q.0)) };
    let mut k = -n;
    while k < n {
        if lo <= k && k + 1 <= hi {
            let mut ok = false;
            let mut i = 0;
            while i < segs.len() {
                let (a, b) = segs[i];
                if orient(p, q, a) == 0 && orient(p, q, b) == 0 {
                    let (l2, h2) = if vertical { (a.1.min(b.1), a.1.max(b.1)) } else { (a.0.min(b.0), a.0.max(b.0)) };
                    if l2 <= k && k + 1 <= h2 {
                        ok = true;
                    }
                }
                i += 1;
            }
            if !ok {
                return false;
            }
        }
        k += 1;
    }
    true
}

pub fn con_line_line<S: Src>(s: &mut S, n: i8) {
    let (a, b, c, d) = (gp(s, n), gp(s, n), gp(s, n), gp(s, n));
    vassume!(a != b); // valid container
    let (l1, l2) = (line_i(a, b), line_i(c, d));
    // T*****FF*: l2 within l1 and interiors meet
    let want = if c == d { line_pos(c, a, b) == Pos::Interior } else { on_segment(c, a, b) && on_segment(d, a, b) };
    assert!(l1.contains(&l2) == want, "Line.contains(Line) differs from the DE-9IM mask");
    assert!(l2.is_within(&l1) == want, "Line.is_within(Line) differs from contains flipped");
    vcover!(want && c != d && (c == a || d == a), "contained segment shares an end point");
    vcover!(c == d && c == a, "degenerate operand at the container's end point (boundary only)");
}

pub fn con_ls_line<S: Src>(s: &mut S, n: i8) {
    let (a, b, c, p, q) = (gp(s, n), gp(s, n), gp(s, n), gp(s, n), gp(s, n));
    vassume!(simple3(a, b, c) && p != q);
    let g = ls_i(&[a, b, c]);
    let l = line_i(p, q);
    let want = seg_covered(p, q, &[(a, b), (b, c)], n as W);
    assert!(g.contains(&l) == want, "LineString.contains(Line) differs from the DE-9IM mask");
    assert!(l.is_within(&g) == want, "Line.is_within(LineString) differs from contains flipped");
    vcover!(want && in_open_segment(b, p, q), "contained segment runs through the middle vertex (collinear line string)");
    vcover!(want, "contained");
    core::mem::forget(g);
}

pub fn con_line_ls<S: Src>(s: &mut S, n: i8) {
    let (a, b, c, p, q) = (gp(s, n), gp(s, n), gp(s, n), gp(s, n), gp(s, n));
    vassume!(simple3(a, b, c) && p != q);
    let g = ls_i(&[a, b, c]);
    let l = line_i(p, q);
    let want = on_segment(a, p, q) && on_segment(b, p, q) && on_segment(c, p, q);
    assert!(l.contains(&g) == want, "Line.contains(LineString) differs from the DE-9IM mask");
    assert!(g.is_within(&l) == want, "LineString.is_within(Line) differs from contains flipped");
    vcover!(want, "contained (collinear line string)");
    core::mem::forget(g);
}

pub fn con_ls_ls<S: Src>(s: &mut S, n: i8) {
    let (a, b, c, p, q, r) = (gp(s, n), gp(s, n), gp(s, n), gp(s, n), gp(s, n), gp(s, n));
    vassume!(simple3(a, b, c) && simple3(p, q, r));
    let g = ls_i(&[a, b, c]);
    let h = ls_i(&[p, q, r]);
    let segs = [(a, b), (b, c)];
    let want = seg_covered(p, q, &segs, n as W) && seg_covered(q, r, &segs, n as W);
    assert!(g.contains(&h) == want, "LineString.contains(LineString) differs from the DE-9IM mask");
    assert!(h.is_within(&g) == want, "LineString.is_within(LineString) differs from contains flipped");
    vcover!(want && (p, q, r) != (a, b, c), "contained, not identical");
    core::mem::forget(g);
    core::mem::forget(h);
}

/// concrete closed ring whose start vertex sits in the middle of a side with a further collinear
/// vertex on that side; symbolic query segment.  (Line strings longer than the symbolic bound:
/// concrete shape, symbolic query.)
pub fn con_ring_line<S: Src>(s: &mut S, n: i8) {
    let ring: [P; 7] = [(2, 0), (3, 0), (4, 0), (4, 4), (0, 4), (0, 0), (2, 0)];
    let (p, q) = (gp(s, n), gp(s, n));
    vassume!(p != q);
    let g = ls_i(&ring);
    let l = line_i(p, q);
    let segs = [(ring[0], ring[1]), (ring[1], ring[2]), (ring[2], ring[3]), (ring[3], ring[4]), (ring[4], ring[5]), (ring[5], ring[6])];
    let want = seg_covered(p, q, &segs, n as W);
    assert!(g.contains(&l) == want, "closed LineString.contains(Line) differs from the DE-9IM mask");
    assert!(l.is_within(&g) == want, "Line.is_within(closed LineString) differs from contains flipped");
    vcover!(want && in_open_segment(ring[0], p, q) && in_open_segment(ring[1], p, q), "contained segment spans the closing vertex and a collinear vertex");
    vcover!(want && p.0 == q.0, "contained vertical segment");
        core::mem::forget(g);
}

/// MultiPolygon ⊇ MultiPoint: no point exterior and at least one interior
pub fn con_mpoly_mpoint<S: Src>(s: &mut S, n: i8) {
    let t1: [P; 4] = [(0, 0), (3, 0), (0, 3), (0, 0)];
    let t2: [P; 4] = [(-1, -1), (-3, -1), (-1, -3), (-1, -1)];
    let (p, q) = (gp(s, n), gp(s, n));
    let g = MultiPolygon(vec![poly_i(&t1, &[]), poly_i(&t2, &[])]);
    let mp = MultiPoint(vec![Point(ci(p)), Point(ci(q))]);
    let pos = |x: P| {
        let (p1, p2) = (ring_pos(x, &t1), ring_pos(x, &t2));
        if p1 == Pos::Interior || p2 == Pos::Interior {
            Pos::Interior
        } else if p1 == Pos::Boundary || p2 == Pos::Boundary {
            Pos::Boundary
        } else {
            Pos::Exterior
        }
    };
    let (pp, pq) = (pos(p), pos(q));
    let want = pp != Pos::Exterior && pq != Pos::Exterior && (pp == Pos::Interior || pq == Pos::Interior);
    assert!(g.contains(&mp) == want, "MultiPolygon.contains(MultiPoint) differs from the DE-9IM mask T*****FF*");
    assert!(mp.is_within(&g) == want, "MultiPoint.is_within(MultiPolygon) differs from contains flipped");
    vcover!(pp == Pos::Interior && pq == Pos::Boundary, "multi-point partly on the boundary");
    vcover!(pp == Pos::Boundary && pq == Pos::Boundary, "multi-point entirely on the boundary");
    core::mem::forget(g);
    core::mem::forget(mp);
}

harnesses! {
    // ---- position + Coord queries on the larger grid; all seven query forms on the small grid
    fn c02_pos_point(s) { pos_point(s, 8, true) }
    fn c02_pos_line_g4(s) { pos_line(s, 4, false) }
    fn c02_pos_line_g2_full(s) { pos_line(s, 2, true) }
    fn c02_pos_rect_g4(s) { pos_rect(s, 4, true) }
    #[kani::unwind(5)] fn c02_pos_triangle_g4(s) { pos_triangle(s, 4, false) }
    #[kani::unwind(5)] fn c02_pos_triangle_g1_full(s) { pos_triangle(s, 1, true) }
    #[kani::unwind(5)] fn c02_pos_ls2_g4(s) { pos_ls2(s, 4, false) }
    #[kani::unwind(5)] fn c02_pos_ls2_g2_full(s) { pos_ls2(s, 2, true) }
    #[kani::unwind(5)] fn c02_pos_ls3_g3(s) { pos_ls3(s, 3, false) }
    #[kani::unwind(5)] fn c02_pos_ls3_g2_full(s) { pos_ls3(s, 2, true) }
    #[kani::unwind(6)] fn c02_pos_ls4_closed_g3(s) { pos_ls4_closed(s, 3, false) }
    #[kani::unwind(6)] fn c02_pos_ls4_closed_g1_full(s) { pos_ls4_closed(s, 1, true) }
    #[kani::unwind(6)] fn c02_pos_ls4_open_g2(s) { pos_ls4_open(s, 2, false) }
    #[kani::unwind(6)] fn c02_pos_poly3_g2(s) { pos_poly3(s, 2, false) }
    #[kani::unwind(6)] fn c02_pos_poly3_g3(s) { pos_poly3(s, 3, false) }
    #[kani::unwind(6)] fn c02_pos_poly3_g1_full(s) { pos_poly3(s, 1, true) }
    #[kani::unwind(7)] fn c02_pos_poly4_g2(s) { pos_poly4(s, 2, false) }
    #[kani::unwind(6)] fn c02_pos_poly_hole_g3(s) { pos_poly_hole(s, 3, false) }
    #[kani::unwind(6)] fn c02_pos_poly_hole_g4(s) { pos_poly_hole(s, 4, false) }
    #[kani::unwind(6)] fn c02_pos_wrappers_g2(s) { pos_wrappers(s, 2) }
    #[kani::unwind(4)] fn c02_pos_multipoint(s) { pos_multipoint(s) }
    #[kani::unwind(4)] fn c02_pos_mls_g3(s) { pos_mls(s, 3, Some(false)) }
    #[kani::unwind(4)] fn c02_pos_mls_g3_kf_shared_endpoint(s) { pos_mls(s, 3, Some(true)) }
    #[kani::unwind(10)] fn c02_pos_mpoly_touching(s) { pos_mpoly(s, 4, true) }
    #[kani::unwind(10)] fn c02_pos_mpoly_apart(s) { pos_mpoly(s, 4, false) }

    fn c02_int_line_line_g3(s) { int_line_line(s, 3) }
    fn c02_int_line_line_g4(s) { int_line_line(s, 4) }
    #[kani::unwind(6)] fn c02_int_line_rect_g1_x0(s) { int_line_rect(s, 1, -1) }
    #[kani::unwind(6)] fn c02_int_line_rect_g1_x1(s) { int_line_rect(s, 1, 0) }
    #[kani::unwind(6)] fn c02_int_line_rect_g1_x2(s) { int_line_rect(s, 1, 1) }
    #[kani::unwind(6)] fn c02_int_line_rect_g2_x0(s) { int_line_rect(s, 2, -2) }
    #[kani::unwind(6)] fn c02_int_line_rect_g2_x1(s) { int_line_rect(s, 2, -1) }
    #[kani::unwind(6)] fn c02_int_line_rect_g2_x2(s) { int_line_rect(s, 2, 0) }
    #[kani::unwind(6)] fn c02_int_line_rect_g2_x3(s) { int_line_rect(s, 2, 1) }
    #[kani::unwind(6)] fn c02_int_line_rect_g2_x4(s) { int_line_rect(s, 2, 2) }
    fn c02_int_rect_rect(s) { int_rect_rect(s) }
    #[kani::unwind(6)] fn c02_int_line_triangle_g3(s) { int_line_triangle(s, 3) }
    #[kani::unwind(5)] fn c02_int_ls_line_g2(s) { int_ls_line(s, 2) }
    #[kani::unwind(7)] fn c02_int_poly_line_g3(s) { int_poly_line(s, 3) }

    fn c02_con_line_line_g4(s) { con_line_line(s, 4) }
    #[kani::unwind(7)] fn c02_con_ls_line_g2(s) { con_ls_line(s, 2) }
    #[kani::unwind(7)] fn c02_con_line_ls_g2(s) { con_line_ls(s, 2) }
    #[kani::unwind(7)] fn c02_con_ls_ls_g2(s) { con_ls_ls(s, 2) }
    #[kani::unwind(10)] fn c02_con_mpoly_mpoint_g4(s) { con_mpoly_mpoint(s, 4) }
    #[kani::unwind(14)] fn c02_con_ring_line_g4(s) { con_ring_line(s, 4) }

    #[kani::unwind(5)] fn c02_sanity_must_fail(s) {
        pos_ls3(s, 2, false);
        assert!(false, "sanity twin reached its end");
    }
}
