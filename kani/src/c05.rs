//! C05 — planar area and ring orientation.
//!
//! Integer instantiation (i16, through the hook) for the shoelace kernel, winding and orient;
//! f32 for the public `Area` impls (they require CoordFloat).  On the small grids every float
//! operation is exact, so results are compared with `==` against the exact integer shoelace.
use crate::gen::*;
use crate::oracle::*;
use crate::Src;
use geo::orient::{Direction, Orient};
use geo::winding_order::{Winding, WindingOrder};
use geo::Area;
use geo_types::{coord, Coord, Geometry, GeometryCollection, LineString, MultiPolygon, Polygon, Rect, Triangle};

// ------------------------------------------------------------------ shoelace kernel (hook)

pub fn ring_area_int3<S: Src>(s: &mut S, n: i8, off: i16) {
    let (a, b, c) = (gp(s, n), gp(s, n), gp(s, n));
    let o = |p: P| -> Coord<I> { coord! { x: p.0 + off, y: p.1 - off } };
    let ring = LineString::new(vec![o(a), o(b), o(c), o(a)]);
    let want = twice_area(&[a, b, c, a]);
    assert!(geo::kani_hooks::twice_signed_ring_area(&ring) == want, "twice_signed_ring_area differs from the exact shoelace sum (3-ring)");
    // not closed / too short => 0
    let open = LineString::new(vec![o(a), o(b), o(c)]);
    if a != c {
        assert!(geo::kani_hooks::twice_signed_ring_area(&open) == 0, "open ring must have zero area");
    }
    let two = LineString::new(vec![o(a), o(a)]);
    assert!(geo::kani_hooks::twice_signed_ring_area(&two) == 0, "2-coordinate ring must have zero area");
    vcover!(want < 0, "clockwise ring");
    vcover!(want == 0 && a != b && b != c, "collinear ring");
    core::mem::forget(ring);
    core::mem::forget(open);
    core::mem::forget(two);
}

pub fn ring_area_int4<S: Src>(s: &mut S, n: i8, off: i16) {
    let (a, b, c, d) = (gp(s, n), gp(s, n), gp(s, n), gp(s, n));
    let o = |p: P| -> Coord<I> { coord! { x: p.0 + off, y: p.1 - off } };
    let ring = LineString::new(vec![o(a), o(b), o(c), o(d), o(a)]);
    let want = twice_area(&[a, b, c, d, a]);
    assert!(geo::kani_hooks::twice_signed_ring_area(&ring) == want, "twice_signed_ring_area differs from the exact shoelace sum (4-ring)");
    vcover!(want < 0, "clockwise ring");
    vcover!(!ring_is_simple(&[a, b, c, d, a]) && want != 0, "self-intersecting ring (bow tie) with net area");
    core::mem::forget(ring);
}

// ------------------------------------------------------------------ Area impls (f32)

fn ring_f(pts: &[P], rev: bool) -> LineString<f32> {
    let n = pts.len();
    let mut v = Vec::with_capacity(n);
    let mut i = 0;
    while i < n {
        v.push(cf(if rev { pts[n - 1 - i] } else { pts[i] }));
        i += 1;
    }
    LineString::new(v)
}

/// 4-ring shell without holes
pub fn poly_area_shell4<S: Src>(s: &mut S, n: i8) {
    let (a, b, c, d) = (gp(s, n), gp(s, n), gp(s, n), gp(s, n));
    let pts = [a, b, c, d, a];
    let p = Polygon::new(ring_f(&pts, false), vec![]);
    let want2 = twice_area(&pts) as f32;
    let got = p.signed_area();
    assert!(got * 2.0 == want2, "Polygon::signed_area differs from the exact shoelace area");
    assert!(p.unsigned_area() == got.abs(), "unsigned_area is not |signed_area|");
    assert!((got > 0.0) == (twice_area(&pts) > 0), "signed_area sign differs from the exterior's orientation");
    vcover!(want2 < 0.0, "clockwise exterior");
    core::mem::forget(p);
}

/// symbolic triangular shell, concrete-position hole(s) of symbolic direction
pub fn poly_area_holes<S: Src>(s: &mut S, n: i8, nholes: usize) {
    let (a, b, c) = (gp(s, n), gp(s, n), gp(s, n));
    let shell = [a, b, c, a];
    let h1: [P; 4] = [(0, 0), (1, 0), (0, 1), (0, 0)];
    let h2: [P; 4] = [(-1, -1), (-1, -2), (-2, -1), (-1, -1)]; // clockwise as written
    let (r1, r2) = (s.bool(), s.bool());
    let hs = if nholes >= 2 { vec![ring_f(&h1, r1), ring_f(&h2, r2)] } else { vec![ring_f(&h1, r1)] };
    let p = Polygon::new(ring_f(&shell, false), hs);
    let se = twice_area(&shell);
    let mut mag = se.abs() - twice_area(&h1).abs();
    if nholes >= 2 {
        mag -= twice_area(&h2).abs();
    }
    let want2 = if se < 0 { -mag } else { mag };
    let got = p.signed_area();
    assert!(got * 2.0 == want2 as f32, "signed_area is not (|exterior| - sum |holes|) with the exterior's sign");
    assert!(p.unsigned_area() == got.abs(), "unsigned_area is not |signed_area|");
    vcover!(se < 0 && r1, "clockwise exterior with a reversed hole");
    if nholes >= 2 {
        // as written h1 is counter-clockwise and h2 clockwise: equal flags = mixed winding
        vcover!(r1 == r2, "two holes of opposite winding");
        vcover!(r1 != r2, "two holes of the same winding");
    }
    core::mem::forget(p);
}

pub fn rect_triangle_area<S: Src>(s: &mut S, n: i8) {
    let (a, b, c) = (gp(s, n), gp(s, n), gp(s, n));
    let r = Rect::new(cf(a), cf(b));
    let w = (a.0 - b.0).abs() * (a.1 - b.1).abs();
    assert!(r.signed_area() == w as f32 && r.unsigned_area() == w as f32, "Rect area is not width*height");
    let rp = r.to_polygon();
    assert!(rp.signed_area() == r.signed_area(), "Rect area differs from the area of its polygon form");
    let t = Triangle(cf(a), cf(b), cf(c));
    let want2 = det(a, b, c) as f32;
    assert!(t.signed_area() * 2.0 == want2, "Triangle::signed_area differs from the exact value");
    assert!(t.unsigned_area() == t.signed_area().abs(), "Triangle unsigned_area");
    let tp = t.to_polygon();
    assert!(tp.signed_area() == t.signed_area(), "Triangle area differs from the area of its polygon form");
    vcover!(want2 < 0.0, "clockwise triangle");
    core::mem::forget(rp);
    core::mem::forget(tp);
}

pub fn collection_area<S: Src>(s: &mut S, n: i8) {
    let (a, b, c) = (gp(s, n), gp(s, n), gp(s, n));
    let (d, e, f_) = (gp(s, n), gp(s, n), gp(s, n));
    let p1 = Polygon::new(ring_f(&[a, b, c, a], false), vec![]);
    let p2 = Polygon::new(ring_f(&[d, e, f_, d], false), vec![]);
    let (s1, s2) = (p1.signed_area(), p2.signed_area());
    let mp = MultiPolygon(vec![p1, p2]);
    assert!(mp.signed_area() == s1 + s2, "MultiPolygon signed_area is not the sum of its members");
    assert!(mp.unsigned_area() == s1.abs() + s2.abs(), "MultiPolygon unsigned_area is not the sum of its members' unsigned areas");
    vcover!(s1 > 0.0 && s2 < 0.0, "members of opposite winding");
    core::mem::forget(mp);
}

pub fn geometry_collection_area<S: Src>(s: &mut S, n: i8) {
    let (a, b, c) = (gp(s, n), gp(s, n), gp(s, n));
    let t = Triangle(cf(a), cf(b), cf(c));
    let r = Rect::new(cf(a), cf(c));
    let gc = GeometryCollection(vec![Geometry::Triangle(t), Geometry::Rect(r), Geometry::Point(geo_types::Point(cf(b)))]);
    assert!(gc.signed_area() == t.signed_area() + r.signed_area(), "GeometryCollection signed_area is not the sum of its members");
    assert!(gc.unsigned_area() == t.unsigned_area() + r.unsigned_area(), "GeometryCollection unsigned_area is not the sum of its members");
    assert!(Geometry::Triangle(t).signed_area() == t.signed_area(), "Geometry wrapper changes the area");
    core::mem::forget(gc);
}

// ------------------------------------------------------------------ winding_order / orient (i16)

fn want_winding(a2: W) -> Option<WindingOrder> {
    if a2 > 0 {
        Some(WindingOrder::CounterClockwise)
    } else if a2 < 0 {
        Some(WindingOrder::Clockwise)
    } else {
        None
    }
}

/// simple 3-rings, every start vertex (rotation by construction: a,b,c are symmetric), with an
/// optional repeated consecutive point
pub fn winding3<S: Src>(s: &mut S, n: i8) {
    let (a, b, c) = (gp(s, n), gp(s, n), gp(s, n));
    vassume!(orient(a, b, c) != 0);
    let dup = s.bool();
    let ring = if dup { ls_i(&[a, b, b, c, a]) } else { ls_i(&[a, b, c, a]) };
    let w = ring.winding_order();
    assert!(w == want_winding(twice_area(&[a, b, c, a])), "winding_order differs from the sign of the exact area (3-ring)");
    assert!(ring.is_ccw() == (det(a, b, c) > 0) && ring.is_cw() == (det(a, b, c) < 0), "is_ccw / is_cw");
    vcover!(dup && det(a, b, c) < 0, "repeated point, clockwise");
    vcover!((c.0, c.1) < (a.0, a.1) && (c.0, c.1) < (b.0, b.1), "lexicographically least vertex is the last one before closing");
    core::mem::forget(ring);
}

pub fn winding4<S: Src>(s: &mut S, n: i8) {
    let (a, b, c, d) = (gp(s, n), gp(s, n), gp(s, n), gp(s, n));
    let pts = [a, b, c, d, a];
    vassume!(ring_is_simple(&pts));
    let ring = ls_i(&pts);
    let w = ring.winding_order();
    assert!(w == want_winding(twice_area(&pts)), "winding_order differs from the sign of the exact area (simple 4-ring)");
    vcover!(orient(a, b, c) * orient(b, c, d) < 0, "concave quadrilateral");
    vcover!((d.0, d.1) < (a.0, a.1) && (d.0, d.1) < (b.0, b.1) && (d.0, d.1) < (c.0, c.1), "least vertex is the last one before closing");
    vcover!(twice_area(&pts) < 0, "clockwise");
    core::mem::forget(ring);
}

/// rings without area give None
pub fn winding_degenerate<S: Src>(s: &mut S, n: i8) {
    let (a, b) = (gp(s, n), gp(s, n));
    let r1 = ls_i(&[a, b, a]);
    assert!(r1.winding_order().is_none(), "3-coordinate ring has a winding order");
    let r2 = ls_i(&[a, b, b, a]);
    assert!(r2.winding_order().is_none(), "ring with two distinct points has a winding order");
    let r3 = ls_i(&[a, a, a, a]);
    assert!(r3.winding_order().is_none(), "single repeated point has a winding order");
    let open = ls_i(&[a, b, (a.0 + 1, a.1), (b.0, b.1 + 1)]);
    if a != (b.0, b.1 + 1) {
        assert!(open.winding_order().is_none(), "open line string has a winding order");
    }
    core::mem::forget(r1);
    core::mem::forget(r2);
    core::mem::forget(r3);
    core::mem::forget(open);
}

fn same_cyclic_dir(got: &LineString<I>, pts: &[P; 4], reversed: bool) -> bool {
    // orient keeps the start vertex: the ring is the input or its reversal
    let g = &got.0;
    if g.len() != 4 {
        return false;
    }
    if reversed {
        g[0] == ci(pts[3]) && g[1] == ci(pts[2]) && g[2] == ci(pts[1]) && g[3] == ci(pts[0])
    } else {
        g[0] == ci(pts[0]) && g[1] == ci(pts[1]) && g[2] == ci(pts[2]) && g[3] == ci(pts[3])
    }
}

/// hole-less triangle polygon of symbolic direction, both requested directions (orient() on
/// polygons WITH holes collects the re-wound holes into a fresh Vec: not encodable, see DESIGN)
pub fn orient_shell<S: Src>(s: &mut S, n: i8) {
    let (a, b, c) = (gp(s, n), gp(s, n), gp(s, n));
    vassume!(orient(a, b, c) != 0);
    let ext = [a, b, c, a];
    let p = poly_i(&ext, &[]);
    let reversed = s.bool();
    let o = p.orient(if reversed { Direction::Reversed } else { Direction::Default });
    let ext_ccw = det(a, b, c) > 0;
    let ext_must_flip = ext_ccw == reversed;
    assert!(o.interiors().is_empty(), "orient invented a hole");
    assert!(same_cyclic_dir(o.exterior(), &ext, ext_must_flip), "orient: exterior is not the input ring in the requested direction");
    vcover!(ext_must_flip, "exterior needs reversing");
    vcover!(reversed && !ext_must_flip, "Direction::Reversed, exterior already clockwise");
    core::mem::forget(p);
    core::mem::forget(o);
}

/// the ring-level operation orient() maps over every ring: clone_to_winding_order
pub fn ring_rewind<S: Src>(s: &mut S, n: i8) {
    let (d, e, f_) = (gp(s, n), gp(s, n), gp(s, n));
    vassume!(orient(d, e, f_) != 0);
    let hole = [d, e, f_, d];
    let r = ls_i(&hole);
    let want_cw = s.bool();
    let o = r.clone_to_winding_order(if want_cw { WindingOrder::Clockwise } else { WindingOrder::CounterClockwise });
    let is_ccw = det(d, e, f_) > 0;
    assert!(same_cyclic_dir(&o, &hole, is_ccw == want_cw), "clone_to_winding_order: result is not the input ring in the requested direction");
    vcover!(is_ccw == want_cw, "ring needs reversing");
    core::mem::forget(r);
    core::mem::forget(o);
}

harnesses! {
    #[kani::unwind(6)] fn c05_ring_area_int3_g3(s) { ring_area_int3(s, 3, 0) }
    #[kani::unwind(6)] fn c05_ring_area_int3_shift(s) { ring_area_int3(s, 3, 5000) }
    #[kani::unwind(7)] fn c05_ring_area_int4_g2(s) { ring_area_int4(s, 2, 0) }
    #[kani::unwind(7)] fn c05_ring_area_int4_shift(s) { ring_area_int4(s, 2, 5000) }
    #[kani::unwind(7)] fn c05_poly_area_shell4_g2(s) { poly_area_shell4(s, 2) }
    #[kani::unwind(6)] fn c05_poly_area_hole1_g2(s) { poly_area_holes(s, 2, 1) }
    #[kani::unwind(6)] fn c05_poly_area_hole2_g1(s) { poly_area_holes(s, 1, 2) }
    #[kani::unwind(7)] fn c05_rect_triangle_area_g2(s) { rect_triangle_area(s, 2) }
    #[kani::unwind(6)] fn c05_multipolygon_area_g1(s) { collection_area(s, 1) }
    #[kani::unwind(6)] fn c05_geometry_collection_area_g2(s) { geometry_collection_area(s, 2) }
    #[kani::unwind(7)] fn c05_winding3_g2(s) { winding3(s, 2) }
    #[kani::unwind(7)] fn c05_winding3_g3(s) { winding3(s, 3) }
    #[kani::unwind(7)] fn c05_winding4_g2(s) { winding4(s, 2) }
    #[kani::unwind(7)] fn c05_winding_degenerate(s) { winding_degenerate(s, 3) }
    #[kani::unwind(7)] fn c05_orient_shell_g1(s) { orient_shell(s, 1) }
    #[kani::unwind(7)] fn c05_ring_rewind_g2(s) { ring_rewind(s, 2) }
    #[kani::unwind(6)] fn c05_sanity_must_fail(s) {
        ring_area_int3(s, 2, 0);
        assert!(false, "sanity twin reached its end");
    }
}
