//! C15 — interpolation and densification along a line, with the metric space as the symbolic
//! environment (S-METRIC): the algorithms are generic over the metric, so the harness supplies an
//! exact "rail" metric (points on the x axis, distance = |dx|) in which every expected value is an
//! exact dyadic number.  `f32`.
use crate::Src;
use geo::line_measures::{Densify, Distance, InterpolateLine, InterpolatePoint, Length};
use geo_types::{coord, Line, LineString, Point};

pub struct Rail;

impl Distance<f32, Point<f32>, Point<f32>> for Rail {
    fn distance(&self, a: Point<f32>, b: Point<f32>) -> f32 {
        (a.x() - b.x()).abs()
    }
}

impl InterpolatePoint<f32> for Rail {
    fn point_at_distance_between(&self, s: Point<f32>, e: Point<f32>, d: f32) -> Point<f32> {
        let dir = if e.x() >= s.x() { 1.0 } else { -1.0 };
        Point::new(s.x() + dir * d, 0.0)
    }
    fn point_at_ratio_between(&self, s: Point<f32>, e: Point<f32>, r: f32) -> Point<f32> {
        Point::new(s.x() + (e.x() - s.x()) * r, 0.0)
    }
    fn points_along_line(&self, s: Point<f32>, e: Point<f32>, max: f32, include_ends: bool) -> impl Iterator<Item = Point<f32>> {
        let _ = (e, max, include_ends);
        core::iter::once(s)
    }
}

/// vertex abscissae k/2, k in -8..=8
fn half<S: Src>(s: &mut S) -> i32 {
    s.range(-8, 8)
}
fn px(k: i32) -> Point<f32> {
    Point::new(k as f32 * 0.5, 0.0)
}

/// exact walk in sixteenths: position (in 1/16) at arc length t16 from the start of ks
fn walk16(ks: &[i32], t16: i32) -> i32 {
    let mut rem = t16;
    let mut i = 0;
    while i + 1 < ks.len() {
        let len = 8 * (ks[i + 1] - ks[i]).abs();
        if len < rem {
            rem -= len;
        } else {
            let sign = if ks[i + 1] >= ks[i] { 1 } else { -1 };
            return 8 * ks[i] + sign * rem;
        }
        i += 1;
    }
    8 * ks[ks.len() - 1]
}

pub fn linestring_ratio<S: Src>(s: &mut S, nseg: usize) {
    let all = [half(s), half(s), half(s), half(s)];
    let ks = &all[..nseg + 1];
    let mut v = Vec::with_capacity(nseg + 1);
    for k in ks {
        v.push(coord! { x: *k as f32 * 0.5, y: 0.0 });
    }
    let ls = LineString::new(v);
    let j = s.range(-16, 16); // ratio j/8
    let r = j as f32 / 8.0;
    let mut total = 0; // sum |dk|
    let mut i = 0;
    while i < nseg {
        total += (ks[i + 1] - ks[i]).abs();
        i += 1;
    }
    assert!(Rail.length(&ls) == total as f32 * 0.5, "length of the line string is not the sum of its segment lengths");
    let jc = j.max(0).min(8);
    let want16 = walk16(ks, jc * total);
    let got = Rail.point_at_ratio_from_start(&ls, r);
    assert!(got.is_some(), "point_at_ratio_from_start of a non-empty line string is None");
    assert!(got.unwrap().x() * 16.0 == want16 as f32, "point_at_ratio_from_start is not at arc length ratio*length (clamped) from the start");
    let back = Rail.point_at_ratio_from_end(&ls, 1.0 - r);
    assert!(back.is_some() && back.unwrap().x() == got.unwrap().x(), "point_at_ratio_from_end(1-r) differs from point_at_ratio_from_start(r)");
    let d = r * (total as f32 * 0.5);
    let byd = Rail.point_at_distance_from_start(&ls, d);
    assert!(byd.is_some() && byd.unwrap().x() == got.unwrap().x(), "point_at_distance_from_start(r*length) differs from the ratio form");
    let byde = Rail.point_at_distance_from_end(&ls, (total as f32 * 0.5) - d);
    assert!(byde.is_some() && byde.unwrap().x() == got.unwrap().x(), "point_at_distance_from_end(length - d) differs from point_at_distance_from_start(d)");
    vcover!(j < 0, "negative ratio (clamped to the start)");
    vcover!(j > 8, "ratio beyond the end (clamped)");
    if nseg >= 2 {
        vcover!(ks[1] == ks[0] && total > 0, "zero-length first segment");
        vcover!((ks[1] - ks[0]) * (ks[2] - ks[1]) < 0, "back-tracking segments");
        vcover!(jc * total == 8 * (ks[1] - ks[0]).abs() && j > 0 && j < 8 && total > 0, "target exactly at an inner vertex");
    }
    core::mem::forget(ls);
}

pub fn line_forms<S: Src>(s: &mut S) {
    let (a, b) = (half(s), half(s));
    let l = Line::new(px(a).0, px(b).0);
    let ls = LineString::new(vec![px(a).0, px(b).0]);
    let j = s.range(-16, 16);
    let r = j as f32 / 8.0;
    let p = Rail.point_at_ratio_from_start(&l, r);
    let q = Rail.point_at_ratio_from_start(&ls, r);
    assert!(q.is_some() && q.unwrap().x() == p.x(), "Line and 2-point LineString disagree (ratio from start)");
    let pe = Rail.point_at_ratio_from_end(&l, 1.0 - r);
    assert!(pe.x() == p.x(), "Line: from_end(1-r) differs from from_start(r)");
    let jc = j.max(0).min(8);
    assert!(p.x() * 16.0 == (8 * a + (b - a) * jc) as f32, "Line: point_at_ratio_from_start is not start + clamp(r)*(end-start)");
    let len = (b - a).abs() as f32 * 0.5;
    let pd = Rail.point_at_distance_from_start(&l, r * len);
    assert!(pd.x() == p.x(), "Line: distance form differs from the ratio form");
    let e: LineString<f32> = LineString::new(vec![]);
    assert!(Rail.point_at_ratio_from_start(&e, r).is_none(), "empty line string must give None");
    core::mem::forget(ls);
}

/// densify a Line into exactly n pieces (n concrete, D and max symbolic)
pub fn densify_line<S: Src>(s: &mut S, n: usize, m_fixed: Option<i32>) {
    let (a, b) = (half(s), half(s));
    let m = match m_fixed {
        Some(m) => m,
        None => s.range(1, 16), // max = m/2
    };
    let dk = (b - a).abs();
    // ceil(D/max) == n   <=>   (n-1)*m < dk <= n*m   (n >= 1; dk == 0 gives 0 pieces)
    vassume!(dk > 0 && (n as i32 - 1) * m < dk && dk <= n as i32 * m);
    let l = Line::new(px(a).0, px(b).0);
    let out = Rail.densify(&l, m as f32 * 0.5);
    let v = &out.0;
    assert!(v.len() == n + 1, "densify does not produce ceil(D/max) pieces");
    assert!(v[0] == px(a).0 && v[n] == px(b).0, "densify does not keep the original end points in order");
    let maxf = m as f32 * 0.5;
    let mut i = 0;
    while i < n {
        let step = (v[i + 1].x - v[i].x).abs();
        assert!(step <= maxf * 1.0001, "densify produced a segment longer than max");
        assert!((v[i + 1].x - v[i].x) * ((b - a) as f32) > 0.0, "densify points are not ordered along the segment");
        i += 1;
    }
    vcover!(dk == n as i32 * m, "D is an exact multiple of max");
    vcover!(b < a, "segment pointing in the negative direction");
    core::mem::forget(out);
}

harnesses! {
    #[kani::unwind(6)] fn c15_linestring_ratio_s1(s) { linestring_ratio(s, 1) }
    #[kani::unwind(6)] fn c15_linestring_ratio_s2(s) { linestring_ratio(s, 2) }
    #[kani::unwind(6)] fn c15_linestring_ratio_s3(s) { linestring_ratio(s, 3) }
    #[kani::unwind(6)] fn c15_line_forms(s) { line_forms(s) }
    #[kani::unwind(6)] fn c15_densify_line_n1(s) { densify_line(s, 1, Some(3)) }
    #[kani::unwind(6)] fn c15_densify_line_n2(s) { densify_line(s, 2, Some(3)) }
    #[kani::unwind(6)] fn c15_densify_line_n3(s) { densify_line(s, 3, Some(2)) }
    #[kani::unwind(7)] fn c15_densify_line_n4(s) { densify_line(s, 4, Some(2)) }
    #[kani::unwind(6)] fn c15_sanity_must_fail(s) {
        line_forms(s);
        assert!(false, "sanity twin reached its end");
    }
}
