//! C18 — structural invariants of the geometry types survive every API history.
//!
//! Inductive step instead of history exploration: the pre-state is `Polygon::new(e, holes)` for a
//! concrete ring-length shape with symbolic coordinates (exactly the invariant-satisfying states
//! of that size, because `new` closes every ring); one mutator runs with a closure that performs a
//! symbolically chosen edit and returns a symbolic Ok/Err; the post-state must again have every
//! non-empty ring closed.  `T = i8` (no arithmetic is involved).
use crate::Src;
use geo_types::{coord, Coord, Geometry, Line, LineString, Polygon, Rect, Triangle};

pub type T = i8;

pub fn any_coord<S: Src>(s: &mut S) -> Coord<T> {
    coord! { x: s.i8(), y: s.i8() }
}

pub fn any_ls<S: Src>(s: &mut S, n: usize) -> LineString<T> {
    let mut v = Vec::with_capacity(n + 2);
    for _ in 0..n {
        v.push(any_coord(s));
    }
    LineString::new(v)
}

/// a ring that is closed by construction (last coordinate is a copy of the first), `n` coords
pub fn closed_ls<S: Src>(s: &mut S, n: usize) -> LineString<T> {
    let mut v = Vec::with_capacity(n);
    if n == 0 {
        return LineString::new(v);
    }
    let first = any_coord(s);
    v.push(first);
    for _ in 1..n.saturating_sub(1) {
        v.push(any_coord(s));
    }
    if n >= 2 {
        v.push(first);
    }
    LineString::new(v)
}

#[inline(never)]
pub fn ring_ok(ls: &LineString<T>) -> bool {
    let n = ls.0.len();
    n == 0 || ls.0[0] == ls.0[n - 1]
}

pub fn poly_ok(p: &Polygon<T>) -> bool {
    if !ring_ok(p.exterior()) {
        return false;
    }
    for h in p.interiors() {
        if !ring_ok(h) {
            return false;
        }
    }
    true
}

/// The edit a closure performs on one ring. `act` and the operands are symbolic.
pub struct Edit {
    pub act: u8,
    pub c: Coord<T>,
    pub i: usize,
    pub j: usize,
}

pub const N_ACTS: u8 = 7;

pub fn any_edit<S: Src>(s: &mut S) -> Edit {
    let act = s.u8();
    vassume!(act < N_ACTS);
    let c = any_coord(s);
    let i = s.u8() as usize;
    let j = s.u8() as usize;
    Edit { act, c, i, j }
}

pub fn apply_edit(ls: &mut LineString<T>, e: &Edit) {
    let n = ls.0.len();
    match e.act {
        0 => {}
        1 => ls.0.push(e.c),
        2 => {
            ls.0.pop();
        }
        3 => ls.0.clear(),
        4 => {
            if e.i < n {
                ls.0[e.i] = e.c;
            }
        }
        5 => {
            // replace the ring by a fresh (unclosed) 2-coordinate ring
            *ls = LineString::new(vec![e.c, coord! { x: e.c.y, y: e.c.x }]);
        }
        _ => {
            if e.i < n && e.j < n {
                ls.0.swap(e.i, e.j);
            }
        }
    }
}

#[derive(Clone, Copy, PartialEq)]
pub enum Op {
    ExteriorMut,
    TryExteriorMut,
    InteriorsMut,
    TryInteriorsMut,
    InteriorsPush,
}

/// one inductive step from the pre-state with exterior of `ne` coords and `nh.len()` holes.
pub fn step<S: Src>(s: &mut S, ne: usize, nh: &[usize], op: Op, which: usize) {
    step_act(s, ne, nh, op, which, None)
}

/// `act`: Some(k) fixes the closure's edit kind (operands stay symbolic); None = symbolic kind.
pub fn step_act<S: Src>(s: &mut S, ne: usize, nh: &[usize], op: Op, which: usize, act: Option<u8>) {
    // act == None: arbitrary rings closed by `new` (base case and step in one harness);
    // act == Some(_): rings closed by construction, so `new` has nothing to push (cheaper state)
    let ext = if act.is_none() { any_ls(s, ne) } else { closed_ls(s, ne) };
    let holes = crate::gen::rings_vec(|k| if act.is_none() { any_ls(s, nh[k]) } else { closed_ls(s, nh[k]) }, nh.len());
    let mut p = Polygon::new(ext, holes);
    // base case: the constructor establishes the invariant
    assert!(poly_ok(&p), "Polygon::new leaves a ring open");
    let mut e = any_edit(s);
    if let Some(k) = act {
        e.act = k;
        if k == 4 {
            e.i = 0;
        }
    }
    let fail = s.bool();
    match op {
        Op::ExteriorMut => p.exterior_mut(|ls| apply_edit(ls, &e)),
        Op::TryExteriorMut => {
            let r: Result<(), u8> = p.try_exterior_mut(|ls| {
                apply_edit(ls, &e);
                if fail {
                    Err(1)
                } else {
                    Ok(())
                }
            });
            assert!(r.is_err() == fail, "try_exterior_mut lost the closure's result");
            vcover!(fail && (e.act == 4 && e.i == 0 || e.act == 1), "closure broke closedness then returned Err");
        }
        Op::InteriorsMut => p.interiors_mut(|hs| {
            if which < hs.len() {
                apply_edit(&mut hs[which], &e)
            }
        }),
        Op::TryInteriorsMut => {
            let r: Result<(), u8> = p.try_interiors_mut(|hs| {
                if which < hs.len() {
                    apply_edit(&mut hs[which], &e)
                }
                if fail {
                    Err(1)
                } else {
                    Ok(())
                }
            });
            assert!(r.is_err() == fail, "try_interiors_mut lost the closure's result");
            vcover!(fail && (e.act == 4 && e.i == 0 || e.act == 1), "closure broke closedness then returned Err");
        }
        Op::InteriorsPush => {
            // arbitrary (possibly unclosed) new ring of 0..=3 coords: concrete length per `which`
            let k = which % 4;
            let mut v = Vec::with_capacity(5);
            for _ in 0..k {
                v.push(e.c);
            }
            if k >= 2 {
                v[1] = coord! { x: e.c.y, y: e.c.x };
            }
            p.interiors_push(LineString::new(v));
        }
    }
    if act.is_none() {
        vcover!(e.act == 1, "edit: push");
        vcover!(e.act == 3, "edit: clear");
    }
    assert!(poly_ok(&p), "a ring is left open after the mutator returned");
    core::mem::forget(p);
}

pub fn rect_new<S: Src>(s: &mut S) {
    let a = any_coord(s);
    let b = any_coord(s);
    let r = Rect::new(a, b);
    let (mn, mx) = (r.min(), r.max());
    assert!(mn.x <= mx.x && mn.y <= mx.y, "Rect::new: min > max");
    assert!(mn.x == a.x.min(b.x) && mx.x == a.x.max(b.x), "Rect::new: x corners wrong");
    assert!(mn.y == a.y.min(b.y) && mx.y == a.y.max(b.y), "Rect::new: y corners wrong");
    vcover!(a.x > b.x && a.y < b.y, "corners given in mixed order");
}

pub fn rect_new_f32<S: Src>(s: &mut S) {
    let a = coord! { x: s.f32(), y: s.f32() };
    let b = coord! { x: s.f32(), y: s.f32() };
    vassume!(!a.x.is_nan() && !a.y.is_nan() && !b.x.is_nan() && !b.y.is_nan());
    let r = Rect::new(a, b);
    let (mn, mx) = (r.min(), r.max());
    assert!(mn.x <= mx.x && mn.y <= mx.y, "Rect::new<f32>: min > max");
    assert!(
        (mn.x == a.x || mn.x == b.x) && (mx.x == a.x || mx.x == b.x),
        "Rect::new<f32>: x corner not an input"
    );
    assert!(mn.x <= a.x && mn.x <= b.x && mx.x >= a.x && mx.x >= b.x, "Rect::new<f32>: x not min/max");
    assert!(mn.y <= a.y && mn.y <= b.y && mx.y >= a.y && mx.y >= b.y, "Rect::new<f32>: y not min/max");
    vcover!(a.x > b.x && a.y < b.y, "corners given in mixed order");
    vcover!(a.x.is_infinite(), "infinite corner");
}

/// set_min / set_max with an admissible argument keep the invariant and set exactly that corner.
pub fn rect_set_ok<S: Src>(s: &mut S) {
    let mut r = Rect::new(any_coord(s), any_coord(s));
    let c = any_coord(s);
    let which = s.bool();
    if which {
        vassume!(c.x <= r.max().x && c.y <= r.max().y);
        let mx = r.max();
        r.set_min(c);
        assert!(r.min() == c && r.max() == mx, "set_min changed something else");
    } else {
        vassume!(c.x >= r.min().x && c.y >= r.min().y);
        let mn = r.min();
        r.set_max(c);
        assert!(r.max() == c && r.min() == mn, "set_max changed something else");
    }
    assert!(r.min().x <= r.max().x && r.min().y <= r.max().y, "Rect invariant broken by set");
    vcover!(which, "set_min");
    vcover!(!which, "set_max");
}

/// set_min / set_max with an inadmissible argument must panic (should_panic harness): the Rect
/// can never be observed with min > max.
pub fn rect_set_bad<S: Src>(s: &mut S) {
    let mut r = Rect::new(any_coord(s), any_coord(s));
    let c = any_coord(s);
    if s.bool() {
        vassume!(c.x > r.max().x || c.y > r.max().y);
        r.set_min(c);
    } else {
        vassume!(c.x < r.min().x || c.y < r.min().y);
        r.set_max(c);
    }
    vcover!(true, "MUSTNOT: set_min/set_max returned normally with a corner that breaks min <= max");
}

pub fn conv_rect_polygon<S: Src>(s: &mut S) {
    let r = Rect::new(any_coord(s), any_coord(s));
    let (mn, mx) = (r.min(), r.max());
    // From<Rect>: documented as (min,min),(max,min),(max,max),(min,max), closed
    let p: Polygon<T> = r.into();
    let e = &p.exterior().0;
    assert!(p.interiors().is_empty() && e.len() == 5, "From<Rect> for Polygon: shape");
    assert!(e[0] == coord! {x: mn.x, y: mn.y}, "From<Rect> for Polygon: v0");
    assert!(e[1] == coord! {x: mx.x, y: mn.y}, "From<Rect> for Polygon: v1");
    assert!(e[2] == coord! {x: mx.x, y: mx.y}, "From<Rect> for Polygon: v2");
    assert!(e[3] == coord! {x: mn.x, y: mx.y}, "From<Rect> for Polygon: v3");
    assert!(e[4] == e[0], "From<Rect> for Polygon: closed");
    // Rect::to_polygon: same ccw ring started at (max.x, min.y)
    let p2 = r.to_polygon();
    let e2 = &p2.exterior().0;
    assert!(p2.interiors().is_empty() && e2.len() == 5, "Rect::to_polygon: shape");
    assert!(e2[0] == e[1] && e2[1] == e[2] && e2[2] == e[3] && e2[3] == e[0] && e2[4] == e2[0], "Rect::to_polygon: order");
    core::mem::forget(p);
    core::mem::forget(p2);
}

pub fn conv_triangle_line<S: Src>(s: &mut S) {
    let (a, b, c) = (any_coord(s), any_coord(s), any_coord(s));
    // the tuple-struct constructor keeps the given order (Triangle::new may reverse it, below)
    let t = Triangle(a, b, c);
    let p: Polygon<T> = t.into();
    let e = &p.exterior().0;
    assert!(p.interiors().is_empty() && e.len() == 4, "Triangle->Polygon shape");
    assert!(e[0] == a && e[1] == b && e[2] == c && e[3] == a, "Triangle->Polygon order");
    let p2 = t.to_polygon();
    assert!(p2 == p, "to_polygon differs from From<Triangle>");
    let arr = t.to_array();
    assert!(arr[0] == a && arr[1] == b && arr[2] == c, "Triangle::to_array order");
    let l = Line::new(a, b);
    let ls: LineString<T> = l.into();
    assert!(ls.0.len() == 2 && ls.0[0] == a && ls.0[1] == b, "Line->LineString order");
    core::mem::forget(p);
    core::mem::forget(p2);
    core::mem::forget(ls);
}

/// Triangle::new keeps the three coordinates, possibly reversed (|coords| <= 3 so that the
/// non-robust cross product it uses cannot overflow i8).
pub fn triangle_new<S: Src>(s: &mut S) {
    let g = |s: &mut S| coord! { x: s.grid(3) as i8, y: s.grid(3) as i8 };
    let (a, b, c) = (g(s), g(s), g(s));
    let t = Triangle::new(a, b, c);
    assert!(t.1 == b, "Triangle::new moved the middle vertex");
    assert!((t.0 == a && t.2 == c) || (t.0 == c && t.2 == a), "Triangle::new lost a vertex");
    vcover!(t.0 == c && a != c, "Triangle::new reversed the order");
}

pub fn conv_geometry_roundtrip<S: Src>(s: &mut S) {
    use std::convert::TryFrom;
    let (a, b, c) = (any_coord(s), any_coord(s), any_coord(s));
    let which = s.u8();
    vassume!(which < 5);
    match which {
        0 => {
            let l = Line::new(a, b);
            let g: Geometry<T> = l.into();
            assert!(matches!(g, Geometry::Line(_)), "Line->Geometry variant");
            assert!(Triangle::try_from(g.clone()).is_err(), "wrong-variant TryFrom must be Err");
            let back = Line::try_from(g);
            assert!(back.is_ok() && back.unwrap() == l, "Line roundtrip");
        }
        1 => {
            let t = Triangle(a, b, c);
            let g: Geometry<T> = t.into();
            assert!(Rect::try_from(g.clone()).is_err(), "wrong-variant TryFrom must be Err");
            let back = Triangle::try_from(g);
            assert!(back.is_ok() && back.unwrap() == t, "Triangle roundtrip");
        }
        2 => {
            let r = Rect::new(a, b);
            let g: Geometry<T> = r.into();
            assert!(Line::try_from(g.clone()).is_err(), "wrong-variant TryFrom must be Err");
            let back = Rect::try_from(g);
            assert!(back.is_ok() && back.unwrap() == r, "Rect roundtrip");
        }
        3 => {
            let p = geo_types::Point(a);
            let g: Geometry<T> = p.into();
            assert!(Line::try_from(g.clone()).is_err(), "wrong-variant TryFrom must be Err");
            let back = geo_types::Point::try_from(g);
            assert!(back.is_ok() && back.unwrap() == p, "Point roundtrip");
        }
        _ => {
            let ls = LineString::new(vec![a, b, c]);
            let g: Geometry<T> = ls.clone().into();
            let back = LineString::try_from(g);
            assert!(back.is_ok(), "LineString roundtrip variant");
            let back = back.unwrap();
            assert!(back.0.len() == 3 && back.0[0] == a && back.0[1] == b && back.0[2] == c, "LineString roundtrip order");
        }
    }
}

pub fn conv_polygon_geometry<S: Src>(s: &mut S) {
    use std::convert::TryFrom;
    let (a, b, c) = (any_coord(s), any_coord(s), any_coord(s));
    let (d, e) = (any_coord(s), any_coord(s));
    let p = Polygon::new(LineString::new(vec![a, b, c]), vec![LineString::new(vec![d, e])]);
    let g: Geometry<T> = p.into();
    let back = Polygon::try_from(g);
    assert!(back.is_ok(), "Polygon roundtrip variant");
    let back = back.unwrap();
    let x = &back.exterior().0;
    assert!(x.len() >= 3 && x[0] == a && x[1] == b && x[2] == c, "Polygon roundtrip exterior coords");
    assert!(back.interiors().len() == 1, "Polygon roundtrip interiors");
    let h = &back.interiors()[0].0;
    assert!(h.len() >= 2 && h[0] == d && h[1] == e, "Polygon roundtrip interior coords");
    assert!(poly_ok(&back), "Polygon roundtrip left a ring open");
    core::mem::forget(back);
}

/// LineString::close: closed afterwards, a prefix-preserving extension by at most one coord.
pub fn ls_close<S: Src>(s: &mut S, n: usize) {
    let ls0 = any_ls(s, n);
    let mut ls = ls0.clone();
    ls.close();
    assert!(ring_ok(&ls), "close() left the ring open");
    let m = ls.0.len();
    assert!(m == n || m == n + 1, "close() changed the length by more than one");
    let mut i = 0;
    while i < n {
        assert!(ls.0[i] == ls0.0[i], "close() changed an existing coordinate");
        i += 1;
    }
    assert!((m == n) == ring_ok(&ls0), "close() pushed onto an already closed ring");
    if n >= 2 {
        vcover!(m == n + 1, "ring needed closing");
    }
    core::mem::forget(ls);
    core::mem::forget(ls0);
}

harnesses! {
    // ---- inductive steps: one harness per (operation x concrete pre-state shape x touched hole)
    #[kani::unwind(8)] fn c18_step_extmut_e0(s) { step(s, 0, &[], Op::ExteriorMut, 0) }
    #[kani::unwind(8)] fn c18_step_extmut_e1(s) { step(s, 1, &[], Op::ExteriorMut, 0) }
    #[kani::unwind(8)] fn c18_step_extmut_e3(s) { step(s, 3, &[2], Op::ExteriorMut, 0) }
    #[kani::unwind(8)] fn c18_step_extmut_e4(s) { step(s, 4, &[], Op::ExteriorMut, 0) }
    #[kani::unwind(8)] fn c18_step_tryextmut_e0(s) { step(s, 0, &[], Op::TryExteriorMut, 0) }
    #[kani::unwind(8)] fn c18_step_tryextmut_e1(s) { step(s, 1, &[], Op::TryExteriorMut, 0) }
    #[kani::unwind(8)] fn c18_step_tryextmut_e3(s) { step(s, 3, &[2], Op::TryExteriorMut, 0) }
    #[kani::unwind(8)] fn c18_step_tryextmut_e4(s) { step(s, 4, &[], Op::TryExteriorMut, 0) }
    #[kani::unwind(8)] fn c18_step_intmut_h0(s) { step(s, 3, &[], Op::InteriorsMut, 0) }
    #[kani::unwind(8)] fn c18_step_intmut_h3(s) { step(s, 3, &[3], Op::InteriorsMut, 0) }
    #[kani::unwind(8)] fn c18_step_intmut_h33_w1_a4(s) { step_act(s, 2, &[3, 3], Op::InteriorsMut, 1, Some(4)) }
    #[kani::unwind(8)] fn c18_step_intmut_h14a(s) { step(s, 2, &[1, 4], Op::InteriorsMut, 0) }
    #[kani::unwind(8)] fn c18_step_intmut_h14b(s) { step(s, 2, &[1, 4], Op::InteriorsMut, 1) }
    #[kani::unwind(8)] fn c18_step_tryintmut_h0(s) { step(s, 3, &[], Op::TryInteriorsMut, 0) }
    #[kani::unwind(8)] fn c18_step_tryintmut_h3(s) { step(s, 3, &[3], Op::TryInteriorsMut, 0) }
    #[kani::unwind(8)] fn c18_step_tryintmut_h33_w1_a4(s) { step_act(s, 2, &[3, 3], Op::TryInteriorsMut, 1, Some(4)) }
    #[kani::unwind(8)] fn c18_step_tryintmut_h14a(s) { step(s, 2, &[1, 4], Op::TryInteriorsMut, 0) }
    #[kani::unwind(8)] fn c18_step_tryintmut_h14b(s) { step(s, 2, &[1, 4], Op::TryInteriorsMut, 1) }
    #[kani::unwind(8)] fn c18_step_push_h12_k2(s) { step(s, 3, &[1, 2], Op::InteriorsPush, 2) }
    #[kani::unwind(8)] fn c18_step_extmut_e3_h22(s) { step(s, 3, &[2, 2], Op::ExteriorMut, 0) }
    #[kani::unwind(8)] fn c18_step_push_k0(s) { step(s, 3, &[], Op::InteriorsPush, 0) }
    #[kani::unwind(8)] fn c18_step_push_k1(s) { step(s, 3, &[], Op::InteriorsPush, 1) }
    #[kani::unwind(8)] fn c18_step_push_k2(s) { step(s, 0, &[2], Op::InteriorsPush, 2) }
    #[kani::unwind(8)] fn c18_step_push_k3(s) { step(s, 3, &[3], Op::InteriorsPush, 3) }
    // ---- Rect
    fn c18_rect_new_i8(s) { rect_new(s) }
    fn c18_rect_new_f32(s) { rect_new_f32(s) }
    fn c18_rect_set_ok(s) { rect_set_ok(s) }
    #[kani::should_panic] fn c18_rect_set_bad(s) { rect_set_bad(s) }
    // ---- conversions
    #[kani::unwind(7)] fn c18_conv_rect_polygon(s) { conv_rect_polygon(s) }
    #[kani::unwind(7)] fn c18_conv_triangle_line(s) { conv_triangle_line(s) }
    fn c18_conv_triangle_new(s) { triangle_new(s) }
    #[kani::unwind(7)] fn c18_conv_geometry_roundtrip(s) { conv_geometry_roundtrip(s) }
    #[kani::unwind(7)] fn c18_conv_polygon_geometry(s) { conv_polygon_geometry(s) }
    // ---- LineString::close
    #[kani::unwind(7)] fn c18_ls_close_0(s) { ls_close(s, 0) }
    #[kani::unwind(7)] fn c18_ls_close_1(s) { ls_close(s, 1) }
    #[kani::unwind(7)] fn c18_ls_close_2(s) { ls_close(s, 2) }
    #[kani::unwind(7)] fn c18_ls_close_4(s) { ls_close(s, 4) }
    // ---- vacuity twin: a deliberately false final assertion must be reported FAILED
    #[kani::unwind(8)] fn c18_sanity_must_fail(s) {
        step(s, 3, &[2], Op::ExteriorMut, 0);
        assert!(false, "sanity twin reached its end");
    }
}
