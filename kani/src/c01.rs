harnesses! {}
