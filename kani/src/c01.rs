//! C01 — relate() returns the true DE-9IM matrix (PARTIAL: the noded graph is out of reach).
//!
//! Decided here: the dimension / boundary-dimension functions (mod-2 rule for multi-line
//! geometries) of every type against the exact definition, the disjoint-envelope shortcut matrix
//! built from them (through the hook `geo::kani_hooks::disjoint_matrix`), its transposition under
//! operand swap and its invariance under re-representation.  `T = i16`.
use crate::gen::*;
use crate::oracle::*;
use crate::Src;
use geo::coordinate_position::CoordPos;
use geo::dimensions::{Dimensions, HasDimensions};
use geo::kani_hooks::disjoint_matrix;
use geo_types::{Geometry, LineString, MultiLineString, MultiPoint, MultiPolygon, Point, Rect, Triangle};

use Dimensions::{Empty, OneDimensional as D1, TwoDimensional as D2, ZeroDimensional as D0};

/// (dimension, boundary dimension) of a line string given as points
fn ls_dims(pts: &[P]) -> (Dimensions, Dimensions) {
    if pts.is_empty() {
        return (Empty, Empty);
    }
    let mut all_eq = true;
    let mut i = 1;
    while i < pts.len() {
        if pts[i] != pts[0] {
            all_eq = false;
        }
        i += 1;
    }
    if all_eq {
        (D0, Empty)
    } else if pts[0] == pts[pts.len() - 1] {
        (D1, Empty)
    } else {
        (D1, D0)
    }
}

fn check_dims<G: HasDimensions>(g: &G, want: (Dimensions, Dimensions), empty: bool) {
    assert!(g.dimensions() == want.0, "dimensions() differs from the topological dimension");
    assert!(g.boundary_dimensions() == want.1, "boundary_dimensions() differs from the dimension of the boundary");
    assert!(g.is_empty() == empty, "is_empty()");
}

/// the shortcut matrix of (A, B) must be  FF dimA / FF bdimA / dimB bdimB 2
fn check_matrix<A: HasDimensions, B: HasDimensions>(a: &A, b: &B, da: (Dimensions, Dimensions), db: (Dimensions, Dimensions)) {
    use CoordPos::{Inside as I, OnBoundary as Bd, Outside as E};
    let m = disjoint_matrix(a, b);
    assert!(m.get(I, I) == Empty && m.get(I, Bd) == Empty && m.get(Bd, I) == Empty && m.get(Bd, Bd) == Empty, "disjoint operands must have F in the interior/boundary block");
    assert!(m.get(I, E) == da.0, "matrix[I][E] is not dim(A)");
    assert!(m.get(Bd, E) == da.1, "matrix[B][E] is not dim(boundary A)");
    assert!(m.get(E, I) == db.0, "matrix[E][I] is not dim(B)");
    assert!(m.get(E, Bd) == db.1, "matrix[E][B] is not dim(boundary B)");
    assert!(m.get(E, E) == D2, "matrix[E][E] must be 2");
    // swapping the operands transposes the matrix
    let t = disjoint_matrix(b, a);
    let ps = [I, Bd, E];
    let mut i = 0;
    while i < 3 {
        let mut j = 0;
        while j < 3 {
            assert!(t.get(ps[i], ps[j]) == m.get(ps[j], ps[i]), "swapping the operands does not transpose the matrix");
            j += 1;
        }
        i += 1;
    }
}

pub fn dims_simple<S: Src>(s: &mut S) {
    let (a, b, c) = (gp(s, 2), gp(s, 2), gp(s, 2));
    check_dims(&Point(ci(a)), (D0, Empty), false);
    let l = line_i(a, b);
    let dl = if a == b { (D0, Empty) } else { (D1, D0) };
    check_dims(&l, dl, false);
    // Line vs 2-point LineString: same point set, same dimensions
    let l2 = ls_i(&[a, b]);
    check_dims(&l2, dl, false);
    let r = Rect::new(ci(a), ci(b));
    let dr = if a == b {
        (D0, Empty)
    } else if a.0 == b.0 || a.1 == b.1 {
        (D1, D0)
    } else {
        (D2, D1)
    };
    check_dims(&r, dr, false);
    let t = Triangle(ci(a), ci(b), ci(c));
    let dt = if orient(a, b, c) != 0 {
        (D2, D1)
    } else if a == b && b == c {
        (D0, Empty)
    } else {
        (D1, D0)
    };
    check_dims(&t, dt, false);
    check_matrix(&t, &l, dt, dl);
    check_matrix(&r, &Point(ci(c)), dr, (D0, Empty));
    // representation invariance: Geometry wrapper, Rect / Triangle as polygon
    check_dims(&Geometry::Triangle(t), dt, false);
    check_dims(&Geometry::Line(l), dl, false);
    if orient(a, b, c) != 0 {
        let tp = t.to_polygon();
        check_dims(&tp, (D2, D1), false);
        core::mem::forget(tp);
    }
    if a.0 != b.0 && a.1 != b.1 {
        let rp = r.to_polygon();
        check_dims(&rp, (D2, D1), false);
        core::mem::forget(rp);
    }
    vcover!(a == b && b == c, "all three points equal");
    vcover!(orient(a, b, c) == 0 && a != b && b != c && a != c, "collinear distinct points");
    core::mem::forget(l2);
}

pub fn dims_linestring<S: Src>(s: &mut S, n: usize) {
    let all = [gp(s, 2), gp(s, 2), gp(s, 2), gp(s, 2)];
    let pts = &all[..n];
    let g = ls_i(pts);
    let want = ls_dims(pts);
    check_dims(&g, want, n == 0);
    check_matrix(&g, &Point(ci(all[0])), want, (D0, Empty));
    let gg = Geometry::LineString(g);
    check_dims(&gg, want, n == 0);
    if n >= 3 {
        vcover!(pts[0] == pts[n - 1] && pts[0] != pts[1], "closed line string (no boundary)");
        vcover!(want.0 == D0, "all coordinates equal");
    }
    core::mem::forget(gg);
}

pub fn dims_polygon<S: Src>(s: &mut S) {
    let (a, b, c) = (gp(s, 2), gp(s, 2), gp(s, 2));
    vassume!(orient(a, b, c) != 0); // valid polygon
    let p = poly_i(&[a, b, c, a], &[]);
    check_dims(&p, (D2, D1), false);
    let e = poly_i(&[], &[]);
    check_dims(&e, (Empty, Empty), true);
    check_matrix(&p, &e, (D2, D1), (Empty, Empty));
    let mp = MultiPolygon(vec![poly_i(&[], &[]), poly_i(&[a, b, c, a], &[])]);
    check_dims(&mp, (D2, D1), false);
    let gp_ = Geometry::Polygon(p);
    check_dims(&gp_, (D2, D1), false);
    core::mem::forget(gp_);
    core::mem::forget(e);
    core::mem::forget(mp);
}

/// the clauses of `dims_polygon`, one per harness (the combined harness gave no verdict in 30 min)
pub fn dims_polygon_part<S: Src>(s: &mut S, part: u8) {
    let (a, b, c) = (gp(s, 2), gp(s, 2), gp(s, 2));
    vassume!(orient(a, b, c) != 0); // valid polygon
    match part {
        0 => {
            let p = poly_i(&[a, b, c, a], &[]);
            check_dims(&p, (D2, D1), false);
            core::mem::forget(p);
        }
        1 => {
            let e = poly_i(&[], &[]);
            check_dims(&e, (Empty, Empty), true);
            core::mem::forget(e);
        }
        2 => {
            let p = poly_i(&[a, b, c, a], &[]);
            let e = poly_i(&[], &[]);
            check_matrix(&p, &e, (D2, D1), (Empty, Empty));
            core::mem::forget(p);
            core::mem::forget(e);
        }
        3 => {
            let mp = MultiPolygon(vec![poly_i(&[], &[]), poly_i(&[a, b, c, a], &[])]);
            check_dims(&mp, (D2, D1), false);
            core::mem::forget(mp);
        }
        _ => {
            let gp_ = Geometry::Polygon(poly_i(&[a, b, c, a], &[]));
            check_dims(&gp_, (D2, D1), false);
            core::mem::forget(gp_);
        }
    }
}

pub fn dims_multipoint<S: Src>(s: &mut S) {
    let (a, b) = (gp(s, 2), gp(s, 2));
    let g = MultiPoint(vec![Point(ci(a)), Point(ci(b))]);
    check_dims(&g, (D0, Empty), false);
    let e: MultiPoint<I> = MultiPoint(vec![]);
    check_dims(&e, (Empty, Empty), true);
    check_matrix(&g, &e, (D0, Empty), (Empty, Empty));
    core::mem::forget(g);
}

/// two 3-point members; boundary by the mod-2 rule over the four member end points.
/// `closed_loop`: Some(false) excludes / Some(true) selects the class of the listed finding (members
/// that are open individually but whose end points all pair up)
pub fn dims_mls<S: Src>(s: &mut S, closed_loop: Option<bool>) {
    let (a, b, c) = (gp(s, 2), gp(s, 2), gp(s, 2));
    let (d, e, f_) = (gp(s, 2), gp(s, 2), gp(s, 2));
    // valid members: non-degenerate simple line strings
    vassume!(a != b && b != c && d != e && e != f_);
    let g = MultiLineString(vec![ls_i(&[a, b, c]), ls_i(&[d, e, f_])]);
    // end points of the open members, with multiplicity
    let mut ends: [Option<P>; 4] = [None; 4];
    if a != c {
        ends[0] = Some(a);
        ends[1] = Some(c);
    }
    if d != f_ {
        ends[2] = Some(d);
        ends[3] = Some(f_);
    }
    let mut odd = false;
    let mut i = 0;
    while i < 4 {
        if let Some(p) = ends[i] {
            let mut k = 0;
            let mut j = 0;
            while j < 4 {
                if ends[j] == Some(p) {
                    k += 1;
                }
                j += 1;
            }
            if k % 2 == 1 {
                odd = true;
            }
        }
        i += 1;
    }
    let any_open = a != c || d != f_;
    let cls = crate::known::mls_open_members_forming_closed_loops(any_open, odd);
    if let Some(k) = closed_loop {
        vassume!(cls == k);
    }
    let want = (D1, if odd { D0 } else { Empty });
    check_dims(&g, want, false);
    check_matrix(&g, &Point(ci(a)), want, (D0, Empty));
    if closed_loop != Some(true) {
        vcover!(a == c && d == f_, "both members closed: no boundary");
        vcover!(odd && c == d, "members chained end to start: two boundary points remain");
    }
    if closed_loop != Some(false) {
        vcover!(cls, "open members whose end points pair up (closed loop)");
    }
    core::mem::forget(g);
}

harnesses! {
    #[kani::unwind(7)] fn c01_dims_simple(s) { dims_simple(s) }
    #[kani::unwind(6)] fn c01_dims_linestring_0(s) { dims_linestring(s, 0) }
    #[kani::unwind(6)] fn c01_dims_linestring_1(s) { dims_linestring(s, 1) }
    #[kani::unwind(6)] fn c01_dims_linestring_3(s) { dims_linestring(s, 3) }
    #[kani::unwind(6)] fn c01_dims_linestring_4(s) { dims_linestring(s, 4) }
    #[kani::unwind(7)] fn c01_dims_polygon(s) { dims_polygon(s) }
    #[kani::unwind(7)] fn c01_dims_polygon_p0(s) { dims_polygon_part(s, 0) }
    #[kani::unwind(7)] fn c01_dims_polygon_p1(s) { dims_polygon_part(s, 1) }
    #[kani::unwind(7)] fn c01_dims_polygon_p2(s) { dims_polygon_part(s, 2) }
    #[kani::unwind(7)] fn c01_dims_polygon_p3(s) { dims_polygon_part(s, 3) }
    #[kani::unwind(7)] fn c01_dims_polygon_p4(s) { dims_polygon_part(s, 4) }
    #[kani::unwind(5)] fn c01_dims_multipoint(s) { dims_multipoint(s) }
    #[kani::unwind(6)] fn c01_dims_mls(s) { dims_mls(s, Some(false)) }
    #[kani::unwind(6)] fn c01_dims_mls_kf_closed_loop(s) { dims_mls(s, Some(true)) }
    #[kani::unwind(6)] fn c01_sanity_must_fail(s) {
        dims_linestring(s, 3);
        assert!(false, "sanity twin reached its end");
    }
}
