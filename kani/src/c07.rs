//! C07 — Euclidean distance (PARTIAL: only the pairs that do not go through the R-tree
//! nearest-neighbour path).  `f32` + S-HYPOT (+ S-ORIENT where intersects is consulted).
use crate::gen::*;
use crate::oracle::*;
use crate::Src;
use geo::{Distance, Euclidean, Intersects};
use geo_types::{Geometry, Line, Point, Polygon};

/// squared distance from p to segment [a,b] as an exact rational num/den (den > 0)
pub fn pt_seg_d2(p: P, a: P, b: P) -> (W, W) {
    let sq = |u: P, v: P| (u.0 - v.0) * (u.0 - v.0) + (u.1 - v.1) * (u.1 - v.1);
    if a == b {
        return (sq(p, a), 1);
    }
    let len2 = sq(a, b);
    let dot = (p.0 - a.0) * (b.0 - a.0) + (p.1 - a.1) * (b.1 - a.1);
    if dot <= 0 {
        (sq(p, a), 1)
    } else if dot >= len2 {
        (sq(p, b), 1)
    } else {
        let d = det(a, b, p);
        (d * d, len2)
    }
}

fn close(d: f32, num: W, den: W) -> bool {
    // d^2 * den within 1e-4 relative of num (all quantities are small integers)
    let lhs = d * d * (den as f32);
    let n = num as f32;
    (lhs - n).abs() <= 0.0001 * n + 0.000001
}

pub fn point_point<S: Src>(s: &mut S, n: i8) {
    let (a, b) = (gp(s, n), gp(s, n));
    let (pa, pb) = (Point(cf(a)), Point(cf(b)));
    let d = Euclidean.distance(&pa, &pb);
    let want = (a.0 - b.0) * (a.0 - b.0) + (a.1 - b.1) * (a.1 - b.1);
    assert!(d >= 0.0, "distance is negative or NaN");
    assert!((d == 0.0) == (a == b), "distance is zero although the points differ (or non-zero for equal points)");
    assert!(close(d, want, 1), "point-point distance differs from the true distance");
    assert!(Euclidean.distance(&pb, &pa) == d, "point-point distance is not symmetric");
    assert!(Euclidean.distance(cf(a), cf(b)) == d, "Coord form differs from Point form");
    assert!(Euclidean.distance(pa, pb) == d, "by-value Point form differs");
    vcover!(a.0 == b.0 && a.1 != b.1, "vertical offset only");
}

pub fn point_line<S: Src>(s: &mut S, n: i8, x0: Option<i8>) {
    let p = match x0 {
        Some(x) => gp_x(s, x, x, n),
        None => gp(s, n),
    };
    let (a, b) = (gp(s, n), gp(s, n));
    let (pp, l) = (Point(cf(p)), line_f(a, b));
    let d = Euclidean.distance(&pp, &l);
    let (num, den) = pt_seg_d2(p, a, b);
    assert!(d >= 0.0, "distance is negative or NaN");
    assert!((d == 0.0) == on_segment(p, a, b), "point-line distance is zero exactly when the point is on the segment: violated");
    assert!(close(d, num, den), "point-line distance differs from the true minimum distance");
    assert!(Euclidean.distance(&l, &pp) == d, "line-point distance is not symmetric");
    assert!(Euclidean.distance(cf(p), &l) == d, "Coord form differs from Point form");
    vcover!(a == b, "zero-length segment");
    vcover!(den > 1 && num > 0, "closest approach in the interior of the segment");
    vcover!(den == 1 && num > 0 && a != b, "closest approach at an end point");
}

pub fn line_line<S: Src>(s: &mut S, n: i8) {
    let (a, b, c, d) = (gp(s, n), gp(s, n), gp(s, n), gp(s, n));
    let (l1, l2) = (line_f(a, b), line_f(c, d));
    let dist = Euclidean.distance(&l1, &l2);
    let share = segs_share_point(a, b, c, d);
    assert!(dist >= 0.0, "distance is negative or NaN");
    assert!((dist == 0.0) == share, "line-line distance is zero exactly when the segments intersect: violated");
    if !share {
        // the minimum is attained at an end point of one of them
        let cands = [pt_seg_d2(a, c, d), pt_seg_d2(b, c, d), pt_seg_d2(c, a, b), pt_seg_d2(d, a, b)];
        let mut best = cands[0];
        let mut i = 1;
        while i < 4 {
            // cands[i] < best  <=>  n_i * d_b < n_b * d_i
            if cands[i].0 * best.1 < best.0 * cands[i].1 {
                best = cands[i];
            }
            i += 1;
        }
        assert!(close(dist, best.0, best.1), "line-line distance differs from the true minimum distance");
    }
    assert!(Euclidean.distance(&l2, &l1) == dist, "line-line distance is not symmetric");
    vcover!(!share && orient(a, b, c) == 0 && orient(a, b, d) == 0 && a != b, "collinear disjoint segments");
    vcover!(share, "intersecting");
}

/// concrete triangle with a concrete triangular hole, symbolic query point
pub fn point_polygon<S: Src>(s: &mut S, n: i8) {
    let shell: [P; 4] = [(-3, -3), (3, -3), (-3, 3), (-3, -3)];
    let hole: [P; 4] = [(-2, -2), (-2, 0), (0, -2), (-2, -2)];
    let q = gp(s, n);
    let g: Polygon<f32> = poly_f(&shell, &[&hole]);
    let pq = Point(cf(q));
    let d = Euclidean.distance(&pq, &g);
    let pos = polygon_pos(q, &shell, &[&hole]);
    assert!(d >= 0.0, "distance is negative or NaN");
    assert!((d == 0.0) == (pos != Pos::Exterior), "point-polygon distance is zero exactly when the point is inside or on the polygon: violated");
    if pos == Pos::Exterior {
        let mut best = pt_seg_d2(q, shell[0], shell[1]);
        let mut i = 1;
        while i < 3 {
            let c = pt_seg_d2(q, shell[i], shell[i + 1]);
            if c.0 * best.1 < best.0 * c.1 {
                best = c;
            }
            i += 1;
        }
        i = 0;
        while i < 3 {
            let c = pt_seg_d2(q, hole[i], hole[i + 1]);
            if c.0 * best.1 < best.0 * c.1 {
                best = c;
            }
            i += 1;
        }
        assert!(close(d, best.0, best.1), "point-polygon distance differs from the true minimum distance");
    }
    assert!(Euclidean.distance(&g, &pq) == d, "polygon-point distance is not symmetric");
    vcover!(pos == Pos::Exterior && ring_pos(q, &shell) == Pos::Interior, "point inside the hole");
    vcover!(pos == Pos::Exterior && ring_pos(q, &shell) == Pos::Exterior, "point outside the shell");
    vcover!(pos == Pos::Boundary, "point on the boundary");
    core::mem::forget(g);
}

/// Geometry enum wrapper gives the same value
pub fn wrapper<S: Src>(s: &mut S, n: i8) {
    let (p, a, b) = (gp(s, n), gp(s, n), gp(s, n));
    let (pp, l) = (Point(cf(p)), line_f(a, b));
    let d = Euclidean.distance(&pp, &l);
    let (g1, g2) = (Geometry::Point(pp), Geometry::Line(l));
    assert!(Euclidean.distance(&g1, &g2) == d, "Geometry wrapper changes the distance");
    assert!(Euclidean.distance(&g2, &g1) == d, "Geometry wrapper: not symmetric");
    let _ = Line::new(cf(a), cf(b)).intersects(&cf(p));
}

harnesses! {
    #[kani::stub(f32::hypot, crate::stubs::hypot_f32)] fn c07_point_point_g8(s) { point_point(s, 8) }
    #[kani::stub(f32::hypot, crate::stubs::hypot_f32)] fn c07_point_line_g1(s) { point_line(s, 1, None) }
    #[kani::stub(f32::hypot, crate::stubs::hypot_f32)] fn c07_point_line_g2_x0(s) { point_line(s, 2, Some(-2)) }
    #[kani::stub(f32::hypot, crate::stubs::hypot_f32)] fn c07_point_line_g2_x1(s) { point_line(s, 2, Some(-1)) }
    #[kani::stub(f32::hypot, crate::stubs::hypot_f32)] fn c07_point_line_g2_x2(s) { point_line(s, 2, Some(0)) }
    #[kani::stub(f32::hypot, crate::stubs::hypot_f32)] fn c07_point_line_g2_x3(s) { point_line(s, 2, Some(1)) }
    #[kani::stub(f32::hypot, crate::stubs::hypot_f32)] fn c07_point_line_g2_x4(s) { point_line(s, 2, Some(2)) }
    #[kani::stub(f32::hypot, crate::stubs::hypot_f32)] #[kani::stub(robust::orient2d, crate::stubs::orient2d_small)] fn c07_line_line_g1(s) { line_line(s, 1) }
    #[kani::unwind(7)] #[kani::stub(f32::hypot, crate::stubs::hypot_f32)] #[kani::stub(robust::orient2d, crate::stubs::orient2d_small)] fn c07_point_polygon_g4(s) { point_polygon(s, 4) }
    #[kani::unwind(7)] #[kani::stub(f32::hypot, crate::stubs::hypot_f32)] #[kani::stub(robust::orient2d, crate::stubs::orient2d_small)] fn c07_wrapper_g1(s) { wrapper(s, 1) }
    #[kani::stub(f32::hypot, crate::stubs::hypot_f32)] fn c07_sanity_must_fail(s) {
        point_point(s, 2);
        assert!(false, "sanity twin reached its end");
    }
}
