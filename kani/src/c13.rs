//! C13 — affine transforms: commutation of the predicates with exact similarity maps
//! (relational harnesses, no oracle).  The matrix algebra and the trait forms are proved by E2
//! (smt/obligations.py); here the maps are applied through geo's own `affine_transform`
//! (AffineOps -> MapCoords), so that path is in the loop.  `T = i16`.
use crate::gen::*;
use crate::oracle::*;
use crate::Src;
use geo::coordinate_position::CoordinatePosition;
use geo::kernels::{Kernel, Orientation};
use geo::winding_order::Winding;
use geo::{AffineOps, AffineTransform, GeoNum, Intersects};
use geo_types::{Line, LineString, Triangle};

/// exact maps: 0 translation by (dx,dy); 1 axis swap; 2 x-reflection; 3 y-reflection;
/// 4 quarter turn; 5 scaling by 2; 6 quarter turn then translation.  Returns (map, determinant)
pub fn exact_map<S: Src>(s: &mut S, k: u8) -> (AffineTransform<I>, I) {
    let (dx, dy) = (s.grid(2) as I, s.grid(2) as I);
    match k {
        0 => (AffineTransform::translate(dx, dy), 1),
        1 => (AffineTransform::new(0, 1, 0, 1, 0, 0), -1),
        2 => (AffineTransform::new(-1, 0, 0, 0, 1, 0), -1),
        3 => (AffineTransform::new(1, 0, 0, 0, -1, 0), -1),
        4 => (AffineTransform::new(0, -1, 0, 1, 0, 0), 1),
        5 => (AffineTransform::new(2, 0, 0, 0, 2, 0), 4),
        _ => (AffineTransform::new(0, -1, 0, 1, 0, 0).compose(&AffineTransform::translate(dx, dy)), 1),
    }
}

fn flip(o: Orientation) -> Orientation {
    match o {
        Orientation::CounterClockwise => Orientation::Clockwise,
        Orientation::Clockwise => Orientation::CounterClockwise,
        Orientation::Collinear => Orientation::Collinear,
    }
}

/// orientation, segment intersection and triangle position commute with the map
pub fn commute_predicates<S: Src>(s: &mut S, n: i8, k: u8) {
    let (m, dt) = exact_map(s, k);
    let (a, b, c, d) = (gp(s, n), gp(s, n), gp(s, n), gp(s, n));
    let (l1, l2) = (line_i(a, b), line_i(c, d));
    let (m1, m2): (Line<I>, Line<I>) = (l1.affine_transform(&m), l2.affine_transform(&m));
    assert!(m1.intersects(&m2) == l1.intersects(&l2), "Line.intersects(Line) changes under an exact similarity map");
    let o = <I as GeoNum>::Ker::orient2d(ci(a), ci(b), ci(c));
    let om = <I as GeoNum>::Ker::orient2d(m.apply(ci(a)), m.apply(ci(b)), m.apply(ci(c)));
    assert!(om == if dt < 0 { flip(o) } else { o }, "orientation does not transform with the sign of the determinant");
    if orient(a, b, c) != 0 {
        let t = Triangle(ci(a), ci(b), ci(c));
        let tm = t.affine_transform(&m);
        assert!(tm.coordinate_position(&m.apply(ci(d))) == t.coordinate_position(&ci(d)), "Triangle coordinate_position changes under an exact similarity map");
    }
    vcover!(l1.intersects(&l2) && a != b && c != d, "intersecting segments");
}

/// ring-level measures: winding flips with the determinant's sign, twice-area scales by det
pub fn commute_ring<S: Src>(s: &mut S, n: i8, k: u8) {
    let (m, dt) = exact_map(s, k);
    let (a, b, c) = (gp(s, n), gp(s, n), gp(s, n));
    vassume!(orient(a, b, c) != 0);
    let r = ls_i(&[a, b, c, a]);
    let rm: LineString<I> = r.affine_transform(&m);
    assert!(rm.0.len() == 4 && rm.0[0] == rm.0[3], "mapped ring is not closed");
    let (w, wm) = (r.winding_order(), rm.winding_order());
    assert!(w.is_some() && wm.is_some(), "winding of a non-degenerate ring is None");
    assert!((w == wm) == (dt > 0), "winding order does not flip exactly under orientation-reversing maps");
    let (a2, a2m) = (geo::kani_hooks::twice_signed_ring_area(&r), geo::kani_hooks::twice_signed_ring_area(&rm));
    assert!(a2m == a2 * dt, "area does not scale by the determinant of the map");
    let mut r2 = r.clone();
    r2.affine_transform_mut(&m);
    assert!(r2 == rm, "affine_transform_mut disagrees with affine_transform");
    core::mem::forget(r);
    core::mem::forget(rm);
    core::mem::forget(r2);
}

/// in-place forms agree with the by-value forms on line strings of every small length (a line string
/// with ONE coordinate counts as closed, an empty one has nothing to map)
pub fn mut_vs_value_linestring<S: Src>(s: &mut S, len: usize) {
    use geo::Translate;
    let (m, _) = exact_map(s, 6);
    let all = [gp(s, 2), gp(s, 2), gp(s, 2)];
    let ls = ls_i(&all[..len]);
    let by_value: LineString<I> = ls.affine_transform(&m);
    let mut in_place = ls.clone();
    in_place.affine_transform_mut(&m);
    assert!(in_place == by_value, "affine_transform_mut disagrees with affine_transform on a short line string");
    assert!(by_value.0.len() == len, "affine_transform changed the number of coordinates");
    let mut i = 0;
    while i < len {
        assert!(by_value.0[i] == m.apply(ci(all[i])), "affine_transform is not the coordinate-wise application");
        i += 1;
    }
    let (dx, dy) = (s.grid(2) as I, s.grid(2) as I);
    let mut t = ls.clone();
    t.translate_mut(dx, dy);
    assert!(t == ls.translate(dx, dy), "translate_mut disagrees with translate on a short line string");
    i = 0;
    while i < len {
        assert!(t.0[i] == ci((all[i].0 + dx, all[i].1 + dy)), "translate is not the coordinate-wise shift");
        i += 1;
    }
    core::mem::forget(ls);
    core::mem::forget(by_value);
    core::mem::forget(in_place);
    core::mem::forget(t);
}

/// compose_many folds left to right
pub fn compose_many<S: Src>(s: &mut S) {
    let e = |s: &mut S| s.grid(2) as I;
    let a = AffineTransform::new(e(s), e(s), e(s), e(s), e(s), e(s));
    let b = AffineTransform::new(e(s), e(s), e(s), e(s), e(s), e(s));
    let c = AffineTransform::new(e(s), e(s), e(s), e(s), e(s), e(s));
    let p = ci(gp(s, 2));
    let m = a.compose_many(&[b, c]);
    assert!(m.apply(p) == c.apply(b.apply(a.apply(p))), "compose_many(a; [b, c]) is not 'a then b then c'");
    assert!(a.compose_many(&[]) == a, "compose_many with no transforms is not the identity composition");
}

harnesses! {
    #[kani::unwind(6)] fn c13_commute_pred_translate(s) { commute_predicates(s, 2, 0) }
    #[kani::unwind(6)] fn c13_commute_pred_swap(s) { commute_predicates(s, 2, 1) }
    #[kani::unwind(6)] fn c13_commute_pred_reflect_x(s) { commute_predicates(s, 2, 2) }
    #[kani::unwind(6)] fn c13_commute_pred_reflect_y(s) { commute_predicates(s, 2, 3) }
    #[kani::unwind(6)] fn c13_commute_pred_quarter_turn(s) { commute_predicates(s, 2, 4) }
    #[kani::unwind(6)] fn c13_commute_pred_scale2(s) { commute_predicates(s, 2, 5) }
    #[kani::unwind(6)] fn c13_commute_pred_turn_translate(s) { commute_predicates(s, 2, 6) }
    #[kani::unwind(7)] fn c13_commute_ring_translate(s) { commute_ring(s, 2, 0) }
    #[kani::unwind(7)] fn c13_commute_ring_reflect_x(s) { commute_ring(s, 2, 2) }
    #[kani::unwind(7)] fn c13_commute_ring_quarter_turn(s) { commute_ring(s, 2, 4) }
    #[kani::unwind(7)] fn c13_commute_ring_scale2(s) { commute_ring(s, 2, 5) }
    #[kani::unwind(5)] fn c13_compose_many(s) { compose_many(s) }
    #[kani::unwind(5)] fn c13_mut_ls_0(s) { mut_vs_value_linestring(s, 0) }
    #[kani::unwind(5)] fn c13_mut_ls_1(s) { mut_vs_value_linestring(s, 1) }
    #[kani::unwind(5)] fn c13_mut_ls_2(s) { mut_vs_value_linestring(s, 2) }
    #[kani::unwind(5)] fn c13_mut_ls_3(s) { mut_vs_value_linestring(s, 3) }
    #[kani::unwind(6)] fn c13_sanity_must_fail(s) {
        commute_predicates(s, 1, 4);
        assert!(false, "sanity twin reached its end");
    }
}
