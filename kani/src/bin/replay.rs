//! Native replay of a solver counterexample against the real (natively compiled) geo code.
//!
//! usage: replay <harness> <hex bytes of value 1> <hex bytes of value 2> ...
//!        replay --list
//! exit 0 = harness body completed (no assertion failed)
//!      1 = an assertion / panic of the body fired  (counterexample reproduces)
//!      3 = a recorded value violates an assumption of the harness, or values ran out
//!          (the counterexample does NOT replay: encoding problem, never a violation)
#[cfg(kani)]
fn main() {}

#[cfg(not(kani))]
use geo_kani::{AssumeViolated, ReplayExhausted, ReplaySrc};

#[cfg(not(kani))]
fn unhex(s: &str) -> Vec<u8> {
    if s == "-" {
        return vec![];
    }
    (0..s.len() / 2)
        .map(|i| u8::from_str_radix(&s[2 * i..2 * i + 2], 16).expect("hex"))
        .collect()
}

#[cfg(not(kani))]
fn main() {
    let args: Vec<String> = std::env::args().skip(1).collect();
    let table = geo_kani::table();
    if args.first().map(|s| s.as_str()) == Some("--list") {
        for (n, _) in &table {
            println!("{n}");
        }
        return;
    }
    let name = args.first().expect("harness name");
    let vals: Vec<Vec<u8>> = args[1..].iter().map(|a| unhex(a)).collect();
    let body = match table.iter().find(|(n, _)| n == name) {
        Some((_, b)) => *b,
        None => {
            eprintln!("unknown harness {name}");
            std::process::exit(4);
        }
    };
    let r = std::panic::catch_unwind(move || {
        let mut s = ReplaySrc::new(vals);
        body(&mut s);
        s.pos
    });
    let covers = geo_kani::src::COVERS.with(|c| c.borrow().clone());
    match r {
        Ok(used) => {
            println!("REPLAY completed harness={name} values_used={used} covers={covers:?}");
            std::process::exit(0);
        }
        Err(e) => {
            if let Some(a) = e.downcast_ref::<AssumeViolated>() {
                println!("REPLAY assumption-violated harness={name} assume={}", a.0);
                std::process::exit(3);
            }
            if e.downcast_ref::<ReplayExhausted>().is_some() {
                println!("REPLAY values-exhausted harness={name}");
                std::process::exit(3);
            }
            let msg = e
                .downcast_ref::<&str>()
                .map(|s| s.to_string())
                .or_else(|| e.downcast_ref::<String>().cloned())
                .unwrap_or_else(|| "<non-string panic>".into());
            println!("REPLAY assertion-failed harness={name} message={msg:?} covers={covers:?}");
            std::process::exit(1);
        }
    }
}
