//! Native side of E2 (mir2smt): (a) evaluates the real functions on concrete vectors for the
//! translator validation, (b) replays solver models against the real code.
//! exit 0 = the real code satisfies the obligation's statement on this input; 1 = it violates it.
#[cfg(kani)]
fn main() {}

#[cfg(not(kani))]
fn main() {
    use geo::kernels::{Kernel, Orientation};
    use geo::{AffineTransform, GeoNum};
    use geo_types::{coord, Coord, Line};
    let args: Vec<String> = std::env::args().skip(1).collect();
    let op = args[0].as_str();
    let ints: Vec<i64> = args[1..].iter().filter_map(|a| a.parse::<i64>().ok()).collect();
    let flts: Vec<f64> = args[1..].iter().filter_map(|a| a.parse::<f64>().ok()).collect();
    let c = |x: i64, y: i64| -> Coord<i64> { coord! {x: x, y: y} };
    let sign = |d: i128| if d > 0 { Orientation::CounterClockwise } else if d < 0 { Orientation::Clockwise } else { Orientation::Collinear };
    let det = |v: &[i64]| -> i128 {
        (v[2] as i128 - v[0] as i128) * (v[5] as i128 - v[1] as i128) - (v[3] as i128 - v[1] as i128) * (v[4] as i128 - v[0] as i128)
    };
    let mat = |e: &[i64]| AffineTransform::new(e[0], e[1], e[2], e[3], e[4], e[5]);
    let fail = |m: String| -> ! {
        println!("VIOLATED {m}");
        std::process::exit(1)
    };
    match op {
        "eval_orient2d_i64" => {
            for v in ints.chunks(6) {
                let o = <i64 as GeoNum>::Ker::orient2d(c(v[0], v[1]), c(v[2], v[3]), c(v[4], v[5]));
                print!("{:?} ", o);
            }
            println!();
        }
        "eval_compose_apply_i64" => {
            for v in ints.chunks(14) {
                let (a, b) = (mat(&v[0..6]), mat(&v[6..12]));
                let r = a.compose(&b).apply(c(v[12], v[13]));
                print!("{},{} ", r.x, r.y);
            }
            println!();
        }
        "orient2d_i64" => {
            let o = <i64 as GeoNum>::Ker::orient2d(c(ints[0], ints[1]), c(ints[2], ints[3]), c(ints[4], ints[5]));
            if o != sign(det(&ints)) {
                fail(format!("orient2d{:?} = {:?}, exact sign {:?}", ints, o, sign(det(&ints))));
            }
            println!("ok orient2d {:?}", o);
        }
        "dot_sign_i64" => {
            let o = <i64 as GeoNum>::Ker::dot_product_sign(c(ints[0], ints[1]), c(ints[2], ints[3]));
            let d = ints[0] as i128 * ints[2] as i128 + ints[1] as i128 * ints[3] as i128;
            if o != sign(d) {
                fail(format!("dot_product_sign{:?} = {:?}", ints, o));
            }
        }
        "sqdist_i64" => {
            let d = <i64 as GeoNum>::Ker::square_euclidean_distance(c(ints[0], ints[1]), c(ints[2], ints[3]));
            let w = (ints[0] - ints[2]).pow(2) + (ints[1] - ints[3]).pow(2);
            if d != w {
                fail(format!("square_euclidean_distance{:?} = {d}, want {w}", ints));
            }
        }
        "line_det_i64" => {
            let d = Line::new(c(ints[0], ints[1]), c(ints[2], ints[3])).determinant();
            let w = ints[0] * ints[3] - ints[1] * ints[2];
            if d != w {
                fail(format!("Line::determinant{:?} = {d}, want {w}", ints));
            }
        }
        "compose_apply_i64" => {
            let (a, b) = (mat(&ints[0..6]), mat(&ints[6..12]));
            let p = c(ints[12], ints[13]);
            let (l, r) = (a.compose(&b).apply(p), b.apply(a.apply(p)));
            if l != r {
                fail(format!("compose/apply {:?}: {:?} vs {:?}", ints, l, r));
            }
        }
        "identity_i64" => {
            let a = mat(&ints[0..6]);
            let i = AffineTransform::<i64>::identity();
            if i.compose(&a) != a || a.compose(&i) != a || i.apply(c(ints[6], ints[7])) != c(ints[6], ints[7]) || !i.is_identity() {
                fail(format!("identity laws {:?}", ints));
            }
            let is = ints[0..6] == [1, 0, 0, 0, 1, 0];
            if a.is_identity() != is {
                fail(format!("is_identity {:?}", ints));
            }
        }
        "translate_scale_i64" => {
            let (p, o) = (c(ints[0], ints[1]), c(ints[2], ints[3]));
            let (dx, dy, fx, fy) = (ints[4], ints[5], ints[6], ints[7]);
            let t = AffineTransform::translate(dx, dy).apply(p);
            let s = AffineTransform::scale(fx, fy, o).apply(p);
            if t != c(p.x + dx, p.y + dy) || s != c(o.x + (p.x - o.x) * fx, o.y + (p.y - o.y) * fy) {
                fail(format!("translate/scale {:?}", ints));
            }
        }
        "inverse_f64" => {
            let a = AffineTransform::new(flts[0], flts[1], flts[2], flts[3], flts[4], flts[5]);
            let d = flts[0] * flts[4] - flts[1] * flts[3];
            match a.inverse() {
                None => {
                    if d != 0.0 {
                        fail(format!("inverse is None for det {d}"));
                    }
                }
                Some(inv) => {
                    if d == 0.0 {
                        fail("inverse is Some for a singular matrix".to_string());
                    }
                    let p = a.compose(&inv);
                    let e = [p.a() - 1.0, p.b(), p.xoff(), p.d(), p.e() - 1.0, p.yoff()];
                    if e.iter().any(|x| x.abs() > 1e-6) {
                        fail(format!("m*inv != identity: {:?}", p));
                    }
                }
            }
        }
        "robust_delegation" => {
            // the real float kernel against the exact sign on integer-valued and ill-conditioned triples
            let pts: &[[i64; 6]] = &[[0, 0, 1, 0, 0, 1], [0, 0, 0, 1, 1, 0], [0, 0, 2, 2, 4, 4], [1, 5, -3, 2, 7, 7], [-4, 1, 9, -2, 3, 3],
                [12, 12, 24, 24, 1, 2], [0, 0, 1 << 40, 1, 1 << 41, 2], [0, 0, 1 << 40, 1, 1 << 41, 3], [5, 5, 5, 9, 5, -3]];
            for v in pts {
                let f = |x: i64, y: i64| -> Coord<f64> { coord! {x: x as f64, y: y as f64} };
                let o = <f64 as GeoNum>::Ker::orient2d(f(v[0], v[1]), f(v[2], v[3]), f(v[4], v[5]));
                if o != sign(det(v)) {
                    fail(format!("<f64 as GeoNum>::Ker::orient2d{:?} = {:?}, exact {:?}", v, o, sign(det(v))));
                }
                let g = |x: i64, y: i64| -> Coord<f32> { coord! {x: x as f32, y: y as f32} };
                if v.iter().all(|x| x.abs() < (1 << 20)) {
                    let o = <f32 as GeoNum>::Ker::orient2d(g(v[0], v[1]), g(v[2], v[3]), g(v[4], v[5]));
                    if o != sign(det(v)) {
                        fail(format!("<f32 as GeoNum>::Ker::orient2d{:?} = {:?}", v, o));
                    }
                }
            }
        }
        "rotate_f64" => {
            let r = AffineTransform::rotate(90.0f64, coord! {x: 1.0, y: 1.0}).apply(coord! {x: 2.0, y: 1.0});
            if (r.x - 1.0).abs() > 1e-9 || (r.y - 2.0).abs() > 1e-9 {
                fail(format!("rotate(90,(1,1)).apply((2,1)) = {:?}, want (1,2)", r));
            }
        }
        "skew_f64" => {
            let r = AffineTransform::skew(45.0f64, 0.0, coord! {x: 0.0, y: 1.0}).apply(coord! {x: 3.0, y: 3.0});
            if (r.x - 5.0).abs() > 1e-9 || (r.y - 3.0).abs() > 1e-9 {
                fail(format!("skew(45,0,(0,1)).apply((3,3)) = {:?}, want (5,3)", r));
            }
        }
        "trait_forms" => {
            // The solver's counterexample is about an opaque geometry; replay = the same statement
            // on a concrete asymmetric geometry whose centroid, bounding-box centre and first
            // vertex all differ.
            use geo::{AffineOps, BoundingRect, Centroid, Rotate, Scale, Skew, Translate};
            use geo_types::{LineString, Point};
            let g: LineString<f64> = vec![(0.0, 0.0), (8.0, 0.0), (8.0, 2.0), (1.0, 6.0)].into();
            let c = g.bounding_rect().unwrap().center();
            let cen: Point<f64> = g.centroid().unwrap();
            let o = coord! {x: 3.0, y: -1.0};
            let close = |a: &LineString<f64>, b: &LineString<f64>| a.0.len() == b.0.len() && a.0.iter().zip(b.0.iter()).all(|(p, q)| (p.x - q.x).abs() < 1e-9 && (p.y - q.y).abs() < 1e-9);
            let mut checks: Vec<(&str, LineString<f64>, LineString<f64>)> = vec![
                ("translate", g.translate(2.0, -3.0), g.affine_transform(&AffineTransform::translate(2.0, -3.0))),
                ("scale", g.scale(3.0), g.affine_transform(&AffineTransform::scale(3.0, 3.0, c))),
                ("scale_xy", g.scale_xy(2.0, 5.0), g.affine_transform(&AffineTransform::scale(2.0, 5.0, c))),
                ("scale_around_point", g.scale_around_point(2.0, 5.0, o), g.affine_transform(&AffineTransform::scale(2.0, 5.0, o))),
                ("rotate_around_center", g.rotate_around_center(30.0), g.affine_transform(&AffineTransform::rotate(30.0, c))),
                ("rotate_around_centroid", g.rotate_around_centroid(30.0), g.affine_transform(&AffineTransform::rotate(30.0, cen.0))),
                ("rotate_around_point", g.rotate_around_point(30.0, Point(o)), g.affine_transform(&AffineTransform::rotate(30.0, o))),
                ("skew", g.skew(20.0), g.affine_transform(&AffineTransform::skew(20.0, 20.0, c))),
                ("skew_xy", g.skew_xy(20.0, 35.0), g.affine_transform(&AffineTransform::skew(20.0, 35.0, c))),
                ("skew_around_point", g.skew_around_point(20.0, 35.0, o), g.affine_transform(&AffineTransform::skew(20.0, 35.0, o))),
            ];
            macro_rules! inplace {
                ($name:literal, $call:expr, $want:expr) => {{
                    let mut h = g.clone();
                    let f: &dyn Fn(&mut LineString<f64>) = &$call;
                    f(&mut h);
                    checks.push(($name, h, g.affine_transform(&$want)));
                }};
            }
            inplace!("translate_mut", |h| h.translate_mut(2.0, -3.0), AffineTransform::translate(2.0, -3.0));
            inplace!("scale_mut", |h| h.scale_mut(3.0), AffineTransform::scale(3.0, 3.0, c));
            inplace!("scale_xy_mut", |h| h.scale_xy_mut(2.0, 5.0), AffineTransform::scale(2.0, 5.0, c));
            inplace!("scale_around_point_mut", |h| h.scale_around_point_mut(2.0, 5.0, o), AffineTransform::scale(2.0, 5.0, o));
            inplace!("rotate_around_center_mut", |h| h.rotate_around_center_mut(30.0), AffineTransform::rotate(30.0, c));
            inplace!("rotate_around_centroid_mut", |h| h.rotate_around_centroid_mut(30.0), AffineTransform::rotate(30.0, cen.0));
            inplace!("rotate_around_point_mut", |h| h.rotate_around_point_mut(30.0, Point(o)), AffineTransform::rotate(30.0, o));
            inplace!("skew_mut", |h| h.skew_mut(20.0), AffineTransform::skew(20.0, 20.0, c));
            inplace!("skew_xy_mut", |h| h.skew_xy_mut(20.0, 35.0), AffineTransform::skew(20.0, 35.0, c));
            inplace!("skew_around_point_mut", |h| h.skew_around_point_mut(20.0, 35.0, o), AffineTransform::skew(20.0, 35.0, o));
            for (name, got, want) in &checks {
                if !close(got, want) {
                    fail(format!("{name}: trait form differs from the documented matrix about the documented origin: {:?} vs {:?}", got, want));
                }
            }
            println!("ok trait forms");
        }
        "structural" => {
            // Replay of the structural obligations (opaque rings in the solver): the same
            // statements on a concrete polygon with two holes, every combination of ring windings,
            // both directions, and f failing at every position.
            use geo::orient::{Direction, Orient};
            use geo::winding_order::Winding;
            use geo::{CoordsIter, MapCoords};
            use geo_types::{LineString, Polygon};
            let ring = |pts: &[(f64, f64)], rev: bool| -> LineString<f64> {
                let mut v: Vec<(f64, f64)> = pts.to_vec();
                if rev {
                    v.reverse();
                }
                v.into()
            };
            let shell = [(0.0, 0.0), (10.0, 0.0), (10.0, 10.0), (0.0, 10.0), (0.0, 0.0)];
            let h1 = [(1.0, 1.0), (3.0, 1.0), (3.0, 3.0), (1.0, 3.0), (1.0, 1.0)];
            let h2 = [(5.0, 5.0), (8.0, 5.0), (8.0, 6.0), (5.0, 6.0), (5.0, 5.0)];
            let same_ring = |a: &LineString<f64>, b: &LineString<f64>| {
                let mut r = b.clone();
                r.0.reverse();
                a == b || *a == r
            };
            for mask in 0..8u8 {
                let p = Polygon::new(ring(&shell, mask & 1 != 0), vec![ring(&h1, mask & 2 != 0), ring(&h2, mask & 4 != 0)]);
                for (dir, ext_ccw) in [(Direction::Default, true), (Direction::Reversed, false)] {
                    let o = p.orient(dir);
                    let ok = o.interiors().len() == 2
                        && same_ring(o.exterior(), p.exterior())
                        && same_ring(&o.interiors()[0], &p.interiors()[0])
                        && same_ring(&o.interiors()[1], &p.interiors()[1])
                        && o.exterior().is_ccw() == ext_ccw
                        && o.interiors().iter().all(|h| h.is_ccw() != ext_ccw);
                    if !ok {
                        fail(format!("orient({:?}) of windings mask {mask}: {:?}", dir, o));
                    }
                }
            }
            let p = Polygon::new(ring(&shell, false), vec![ring(&h1, true), ring(&h2, false)]);
            let f = |c: Coord<f64>| coord! {x: c.y + 1.0, y: c.x - 2.0};
            let m = p.map_coords(f);
            let want: Vec<Coord<f64>> = p.coords_iter().map(f).collect();
            if m.coords_iter().collect::<Vec<_>>() != want || m.interiors().len() != 2 {
                fail("Polygon::map_coords is not f applied ring by ring".to_string());
            }
            let n = p.coords_count();
            for k in 0..=n {
                let calls = std::cell::Cell::new(0usize);
                let r: Result<Polygon<f64>, usize> = p.try_map_coords(|c| {
                    let i = calls.get();
                    calls.set(i + 1);
                    if i == k {
                        Err(i)
                    } else {
                        Ok(f(c))
                    }
                });
                match r {
                    Ok(q) => {
                        if k < n || q != m {
                            fail(format!("try_map_coords returned Ok although f failed at coordinate {k} (or a wrong polygon)"));
                        }
                    }
                    Err(e) => {
                        if k >= n || e != k || calls.get() != k + 1 {
                            fail(format!("try_map_coords: error {e} / {} calls for a failure at coordinate {k}", calls.get()));
                        }
                    }
                }
            }
            println!("ok structural");
        }
        "relate_shortcut" => {
            // operands with disjoint envelopes: the matrix must be FF dimA / FF bdimA / dimB bdimB 2
            use geo::Relate;
            use geo_types::{polygon, Line, Point};
            let poly = polygon![(x: 0.0, y: 0.0), (x: 2.0, y: 0.0), (x: 0.0, y: 2.0), (x: 0.0, y: 0.0)];
            let line = Line::new(coord! {x: 10.0, y: 10.0}, coord! {x: 12.0, y: 11.0});
            let pt = Point::new(-5.0, -5.0);
            let checks = [
                (poly.relate(&line).matches("FF2FF1102").unwrap(), "polygon x line"),
                (line.relate(&poly).matches("FF1FF0212").unwrap(), "line x polygon"),
                (poly.relate(&pt).matches("FF2FF10F2").unwrap(), "polygon x point"),
                (pt.relate(&line).matches("FF0FFF102").unwrap(), "point x line"),
            ];
            for (ok, what) in checks {
                if !ok {
                    fail(format!("relate of operands with disjoint envelopes ({what}) is not the dimension matrix"));
                }
            }
            println!("ok relate shortcut");
        }
        "centroid_dominance" => {
            use geo::Centroid;
            use geo_types::{Geometry, GeometryCollection, Line, Point, Triangle};
            let t = Triangle(coord! {x: 0.0, y: 0.0}, coord! {x: 6.0, y: 0.0}, coord! {x: 0.0, y: 3.0});
            let l = Line::new(coord! {x: 10.0, y: 10.0}, coord! {x: 14.0, y: 12.0});
            let p = Point::new(-7.0, 9.0);
            let g = [Geometry::Triangle(t), Geometry::Line(l), Geometry::Point(p)];
            for order in [[0, 1, 2], [0, 2, 1], [1, 0, 2], [1, 2, 0], [2, 0, 1], [2, 1, 0]] {
                let gc = GeometryCollection(order.iter().map(|&i| g[i].clone()).collect());
                if gc.centroid() != Some(t.centroid()) {
                    fail(format!("collection order {:?}: centroid {:?} is not the triangle's {:?}", order, gc.centroid(), t.centroid()));
                }
            }
            for order in [[1, 2], [2, 1]] {
                let gc = GeometryCollection(order.iter().map(|&i| g[i].clone()).collect());
                if gc.centroid() != Some(l.centroid()) {
                    fail(format!("collection order {:?}: centroid is not the line's", order));
                }
            }
            let two = GeometryCollection(vec![Geometry::Point(p), Geometry::Point(Point::new(1.0, 1.0))]);
            if two.centroid() != Some(Point::new(-3.0, 5.0)) {
                fail("two points: centroid is not their mean".to_string());
            }
            println!("ok centroid dominance");
        }
        "polygon_reclose" => {
            use geo_types::{LineString, Polygon};
            let open = |k: f64, n: usize| -> LineString<f64> { (0..n).map(|i| (k + i as f64, (i * i) as f64 - k)).collect::<Vec<_>>().into() };
            let all_closed = |p: &Polygon<f64>| p.exterior().is_closed() && p.interiors().iter().all(|h| h.is_closed());
            let mut p = Polygon::new(open(0.0, 6), vec![open(10.0, 5), open(20.0, 7), open(30.0, 4)]);
            if !all_closed(&p) || p.interiors().len() != 3 {
                fail("Polygon::new left a ring open".to_string());
            }
            p.exterior_mut(|e| e.0[0].x = -99.0);
            if !all_closed(&p) {
                fail("exterior_mut left the exterior open".to_string());
            }
            let r: Result<(), &str> = p.try_exterior_mut(|e| {
                e.0[0].x = -98.0;
                Err("bail")
            });
            if r != Err("bail") || !all_closed(&p) {
                fail("try_exterior_mut: ring open after Err, or the closure's result was lost".to_string());
            }
            let r: Result<(), &str> = p.try_exterior_mut(|e| {
                e.0[0].x = -97.0;
                Ok(())
            });
            if r != Ok(()) || !all_closed(&p) {
                fail("try_exterior_mut: ring open after Ok".to_string());
            }
            p.interiors_mut(|hs| {
                for h in hs.iter_mut() {
                    h.0[0].y += 1.0;
                }
            });
            if !all_closed(&p) {
                fail("interiors_mut left an interior open".to_string());
            }
            for k in 0..3 {
                let r: Result<(), usize> = p.try_interiors_mut(|hs| {
                    hs[k].0[0].y -= 2.0;
                    Err(k)
                });
                if r != Err(k) || !all_closed(&p) {
                    fail(format!("try_interiors_mut: interior {k} open after Err, or the closure's result was lost"));
                }
            }
            p.interiors_push(open(40.0, 5));
            if !all_closed(&p) || p.interiors().len() != 4 || p.interiors()[3].0[0] != (coord! {x: 40.0, y: -40.0}) {
                fail("interiors_push: new ring open or not appended last".to_string());
            }
            println!("ok polygon reclose");
        }
        "geometry_delegation" => {
            use geo::CoordsIter;
            use geo_types::{polygon, Geometry, GeometryCollection, Line, LineString, MultiLineString, MultiPoint, MultiPolygon, Point, Rect, Triangle};
            let poly = polygon!(exterior: [(x: 0.0, y: 0.0), (x: 9.0, y: 0.0), (x: 0.0, y: 9.0), (x: 0.0, y: 0.0)], interiors: [[(x: 1.0, y: 1.0), (x: 2.0, y: 1.0), (x: 1.0, y: 2.0), (x: 1.0, y: 1.0)]]);
            let ls: LineString<f64> = vec![(0.0, 0.0), (1.0, 2.0), (3.0, 1.0)].into();
            let gc = GeometryCollection(vec![Geometry::Polygon(poly.clone()), Geometry::Point(Point::new(5.0, 5.0))]);
            let all: Vec<Geometry<f64>> = vec![
                Geometry::Point(Point::new(1.0, 2.0)),
                Geometry::Line(Line::new(coord! {x: 0.0, y: 0.0}, coord! {x: 1.0, y: 1.0})),
                Geometry::LineString(ls.clone()),
                Geometry::Polygon(poly.clone()),
                Geometry::MultiPoint(MultiPoint(vec![Point::new(0.0, 1.0), Point::new(2.0, 3.0)])),
                Geometry::MultiLineString(MultiLineString(vec![ls.clone(), ls.clone()])),
                Geometry::MultiPolygon(MultiPolygon(vec![poly.clone(), poly.clone()])),
                Geometry::GeometryCollection(gc.clone()),
                Geometry::Rect(Rect::new(coord! {x: 0.0, y: 0.0}, coord! {x: 2.0, y: 3.0})),
                Geometry::Triangle(Triangle(coord! {x: 0.0, y: 0.0}, coord! {x: 2.0, y: 0.0}, coord! {x: 0.0, y: 2.0})),
            ];
            macro_rules! same {
                ($g:expr, $inner:expr) => {{
                    let (a, b): (Vec<Coord<f64>>, Vec<Coord<f64>>) = ($g.coords_iter().collect(), $inner.coords_iter().collect());
                    let (c, d): (Vec<Coord<f64>>, Vec<Coord<f64>>) = ($g.exterior_coords_iter().collect(), $inner.exterior_coords_iter().collect());
                    a == b && c == d && $g.coords_count() == $inner.coords_count()
                }};
            }
            for g in &all {
                let ok = match g {
                    Geometry::Point(x) => same!(g, x),
                    Geometry::Line(x) => same!(g, x),
                    Geometry::LineString(x) => same!(g, x),
                    Geometry::Polygon(x) => same!(g, x),
                    Geometry::MultiPoint(x) => same!(g, x),
                    Geometry::MultiLineString(x) => same!(g, x),
                    Geometry::MultiPolygon(x) => same!(g, x),
                    Geometry::GeometryCollection(x) => same!(g, x),
                    Geometry::Rect(x) => same!(g, x),
                    Geometry::Triangle(x) => same!(g, x),
                };
                if !ok {
                    fail(format!("Geometry enum traversal differs from the wrapped value's: {:?}", g));
                }
            }
            println!("ok geometry delegation");
        }
        "nearest_endpoint" => {
            // nearest_endpoint is private: replay through line_intersection on nearly coincident
            // pairs whose raw crossing leaves the bounding boxes (the fallback runs), both orders
            use geo::line_intersection::{line_intersection, LineIntersection};
            use geo::{BoundingRect, Intersects};
            let pairs = [
                (
                    Line::new(coord! { x: 4348433.262114629, y: 5552595.478385733 }, coord! { x: 4348440.849387404, y: 5552599.272022122 }),
                    Line::new(coord! { x: 4348433.26211463, y: 5552595.47838573 }, coord! { x: 4348440.8493874, y: 5552599.27202212 }),
                ),
                (
                    Line::new(coord! { x: 999999.9999999978, y: 1999999.9999999972 }, coord! { x: 1000007.9999999963, y: 2000004.0000000037 }),
                    Line::new(coord! { x: 1000000.0000000037, y: 2000000.0000000042 }, coord! { x: 1000007.9999999977, y: 2000004.0000000044 }),
                ),
            ];
            for (p, q) in pairs {
                let mut pts = vec![];
                for (a, b) in [(p, q), (q, p)] {
                    match line_intersection(a, b) {
                        Some(LineIntersection::SinglePoint { intersection, is_proper: true }) => {
                            if !(p.bounding_rect().intersects(&intersection) && q.bounding_rect().intersects(&intersection)) {
                                fail(format!("proper point {:?} of {:?} x {:?} is outside a bounding box", intersection, a, b));
                            }
                            pts.push(intersection);
                        }
                        other => fail(format!("expected a proper crossing, got {:?}", other)),
                    }
                }
                if pts[0] != pts[1] {
                    fail(format!("proper point depends on the operand order: {:?} vs {:?}", pts[0], pts[1]));
                }
            }
            println!("ok nearest endpoint");
        }
        "line_segment_distance" => {
            use geo::{Distance, Euclidean};
            use geo_types::Point;
            let l = Line::new(coord! {x: 1.0, y: 1.0}, coord! {x: 5.0, y: 4.0});
            // (point, exact squared distance)
            let cases = [((0.0, 0.0), 2.0), ((9.0, 7.0), 25.0), ((1.0, 1.0), 0.0), ((3.0, 2.5), 0.0), ((0.0, 7.0), 37.0 - 14.0 * 14.0 / 25.0), ((6.0, -2.0), 729.0 / 25.0)];
            for ((x, y), want2) in cases {
                let d: f64 = Euclidean.distance(&Point::new(x, y), &l);
                let want2: f64 = want2;
                if d < 0.0 || (d * d - want2).abs() > 1e-9 * (1.0 + want2) {
                    fail(format!("distance from ({x},{y}) to {:?} is {d}, exact squared distance {want2}", l));
                }
            }
            let dot = Line::new(coord! {x: 2.0, y: 2.0}, coord! {x: 2.0, y: 2.0});
            let dd: f64 = Euclidean.distance(&Point::new(5.0, 6.0), &dot);
            if (dd - 5.0).abs() > 1e-12 {
                fail("distance to a zero-length segment is not the distance to its point".to_string());
            }
            println!("ok line segment distance");
        }
        "ring_area" => {
            use geo::Area;
            use geo_types::{LineString, Polygon};
            let rings: [&[(i64, i64)]; 3] = [&[(0, 0), (4, 0), (4, 3), (0, 0)], &[(2, 1), (-3, 5), (-4, -4), (6, -2), (2, 1)], &[(0, 0), (2, 2), (2, 0), (0, 2), (0, 0)]];
            for r in rings {
                for off in [0i64, 100_000_000] {
                    let exact2: i64 = r.windows(2).map(|w| w[0].0 * w[1].1 - w[1].0 * w[0].1).sum();
                    let ls: LineString<f64> = r.iter().map(|&(x, y)| ((x + off) as f64, (y - off) as f64)).collect::<Vec<_>>().into();
                    let got = Polygon::new(ls, vec![]).signed_area();
                    if (got * 2.0 - exact2 as f64).abs() > 1e-6 {
                        fail(format!("signed_area of {:?} translated by {off} is {got}, exact {}", r, exact2 as f64 / 2.0));
                    }
                }
            }
            let open: LineString<f64> = vec![(0.0, 0.0), (4.0, 0.0), (4.0, 3.0), (1.0, 1.0)].into();
            if geo::kani_hooks::twice_signed_ring_area(&open) != 0.0 {
                fail("open ring has non-zero area".to_string());
            }
            println!("ok ring area");
        }
        "linestring_walk" => {
            use geo::line_measures::InterpolateLine;
            use geo::Euclidean;
            use geo_types::{LineString, Point};
            let ls: LineString<f64> = vec![(0.0, 0.0), (3.0, 0.0), (3.0, 4.0), (0.0, 4.0)].into();
            // arc-length position on the axis-parallel path 3 + 4 + 3
            let at = |d: f64| -> (f64, f64) {
                let d = d.clamp(0.0, 10.0);
                if d <= 3.0 {
                    (d, 0.0)
                } else if d <= 7.0 {
                    (3.0, d - 3.0)
                } else {
                    (10.0 - d, 4.0)
                }
            };
            for d in [-1.0, 0.0, 2.0, 3.0, 5.0, 7.0, 8.5, 10.0, 12.0] {
                let a = Euclidean.point_at_distance_from_start(&ls, d).unwrap();
                let b = Euclidean.point_at_distance_from_end(&ls, 10.0 - d).unwrap();
                let w = at(d);
                let close = |p: Point<f64>| (p.x() - w.0).abs() < 1e-9 && (p.y() - w.1).abs() < 1e-9;
                if !close(a) || !close(b) {
                    fail(format!("distance {d}: from_start {:?}, from_end(10-d) {:?}, expected {:?}", a, b, w));
                }
                let r = Euclidean.point_at_ratio_from_start(&ls, d / 10.0).unwrap();
                if !close(r) {
                    fail(format!("ratio {}: {:?}, expected {:?}", d / 10.0, r, w));
                }
            }
            // repeated vertices (zero-length segments) at either end and in the middle
            let rep: LineString<f64> = vec![(2.0, 3.0), (2.0, 3.0), (12.0, 3.0), (12.0, 3.0), (12.0, 8.0), (12.0, 8.0)].into();
            let at2 = |d: f64| -> (f64, f64) {
                let d = d.clamp(0.0, 15.0);
                if d <= 10.0 {
                    (2.0 + d, 3.0)
                } else {
                    (12.0, 3.0 + d - 10.0)
                }
            };
            for d in [-4.0, 0.0, 4.0, 10.0, 12.5, 15.0, 20.0] {
                let w = at2(d);
                let close = |p: Option<Point<f64>>| matches!(p, Some(p) if (p.x() - w.0).abs() < 1e-9 && (p.y() - w.1).abs() < 1e-9);
                let got = [
                    Euclidean.point_at_distance_from_start(&rep, d),
                    Euclidean.point_at_distance_from_end(&rep, 15.0 - d),
                    Euclidean.point_at_ratio_from_start(&rep, d / 15.0),
                    Euclidean.point_at_ratio_from_end(&rep, 1.0 - d / 15.0),
                ];
                if !got.iter().all(|g| close(*g)) {
                    fail(format!("repeated vertices, distance {d}: {:?}, expected {:?}", got, w));
                }
            }
            let e: LineString<f64> = LineString::new(vec![]);
            if Euclidean.point_at_distance_from_start(&e, 1.0).is_some() {
                fail("empty line string must give None".to_string());
            }
            println!("ok linestring walk");
        }
        "line_closest_point" => {
            use geo::{Closest, ClosestPoint};
            use geo_types::Point;
            let l = Line::new(coord! {x: 1.0, y: 1.0}, coord! {x: 5.0, y: 4.0});
            let near = |a: Point<f64>, x: f64, y: f64| (a.x() - x).abs() < 1e-9 && (a.y() - y).abs() < 1e-9;
            let ok = matches!(l.closest_point(&Point::new(0.0, 0.0)), Closest::SinglePoint(c) if near(c, 1.0, 1.0))
                && matches!(l.closest_point(&Point::new(9.0, 7.0)), Closest::SinglePoint(c) if near(c, 5.0, 4.0))
                && matches!(l.closest_point(&Point::new(3.0, 2.5)), Closest::Intersection(c) if near(c, 3.0, 2.5))
                && matches!(l.closest_point(&Point::new(1.0, 1.0)), Closest::Intersection(c) if near(c, 1.0, 1.0))
                && matches!(l.closest_point(&Point::new(0.0, 7.0)), Closest::SinglePoint(c) if near(c, 1.0 + 4.0 * 14.0 / 25.0, 1.0 + 3.0 * 14.0 / 25.0))
                && Line::new(coord! {x: 2.0, y: 2.0}, coord! {x: 2.0, y: 2.0}).closest_point(&Point::new(0.0, 0.0)) == Closest::Indeterminate;
            if !ok {
                fail("Line::closest_point differs from the clamped projection on a concrete instance".to_string());
            }
            println!("ok line closest point");
        }
        "densify_structure" => {
            use geo::Densify;
            use geo::Euclidean;
            use geo_types::LineString;
            let cases: Vec<Vec<(f64, f64)>> = vec![
                vec![],
                vec![(1.0, 1.0)],
                vec![(0.0, 0.0), (1.0, 0.0), (1.0, 0.0), (3.0, 0.0)],
                vec![(0.0, 0.0), (0.0, 0.0)],
                vec![(0.0, 0.0), (2.0, 0.0), (0.0, 0.0), (0.0, 0.0)],
            ];
            for pts in cases {
                let ls: LineString<f64> = pts.clone().into();
                // no segment is longer than 100: nothing is inserted, so the output is the input
                let d = Euclidean.densify(&ls, 100.0);
                if d != ls {
                    fail(format!("densify({:?}, 100) = {:?}: original vertices changed", pts, d.0));
                }
                // max length 0.5: the original vertices remain, in order, as a subsequence
                let d = Euclidean.densify(&ls, 0.5);
                let mut k = 0;
                for c in &d.0 {
                    if k < ls.0.len() && *c == ls.0[k] {
                        k += 1;
                    }
                }
                if k != ls.0.len() || (d.0.len() < ls.0.len()) {
                    fail(format!("densify({:?}, 0.5) = {:?}: an original vertex is missing", pts, d.0));
                }
            }
            println!("ok densify structure");
        }
        "centroid_contributions" => {
            use geo::Centroid;
            use geo_types::{Geometry, GeometryCollection, Point, Rect, Triangle};
            let near = |p: Option<Point<f64>>, x: f64, y: f64| matches!(p, Some(p) if (p.x() - x).abs() < 1e-9 && (p.y() - y).abs() < 1e-9);
            // a clockwise and a counter-clockwise triangle of the same area: centroid is the midpoint of theirs
            let cw = Triangle(coord! {x: 0.0, y: 0.0}, coord! {x: 0.0, y: 3.0}, coord! {x: 3.0, y: 0.0});
            let ccw = Triangle(coord! {x: 10.0, y: 0.0}, coord! {x: 13.0, y: 0.0}, coord! {x: 10.0, y: 3.0});
            let gc = GeometryCollection(vec![Geometry::Triangle(cw), Geometry::Triangle(ccw)]);
            if !near(gc.centroid(), 6.0, 1.0) {
                fail(format!("two triangles of equal area, opposite winding: centroid {:?}, expected (6, 1)", gc.centroid()));
            }
            if !near(Some(cw.centroid()), 1.0, 1.0) {
                fail(format!("clockwise triangle centroid {:?}", cw.centroid()));
            }
            let r = Rect::new(coord! {x: 20.0, y: 0.0}, coord! {x: 22.0, y: 2.0});
            let gc = GeometryCollection(vec![Geometry::Triangle(cw), Geometry::Rect(r)]);
            // weights 4.5 and 4, centroids (1,1) and (21,1)
            if !near(gc.centroid(), (4.5 + 84.0) / 8.5, 1.0) {
                fail(format!("triangle + rect: centroid {:?}", gc.centroid()));
            }
            let gc = GeometryCollection(vec![
                Geometry::Line(Line::new(coord! {x: 0.0, y: 0.0}, coord! {x: 2.0, y: 0.0})),
                Geometry::Line(Line::new(coord! {x: 10.0, y: 0.0}, coord! {x: 10.0, y: 6.0})),
            ]);
            if !near(gc.centroid(), 62.0 / 8.0, 18.0 / 8.0) {
                fail(format!("two lines: centroid {:?}", gc.centroid()));
            }
            // a polygon whose hole covers its exterior exactly degenerates to the exterior line string:
            // length-weighted centroid (1.5, 1), not the area-weighted (4/3, 1)
            let ring: geo_types::LineString<f64> = vec![(0.0, 0.0), (4.0, 0.0), (0.0, 3.0), (0.0, 0.0)].into();
            let hollow = geo_types::Polygon::new(ring.clone(), vec![ring.clone()]);
            if !near(hollow.centroid(), 1.5, 1.0) {
                fail(format!("polygon fully covered by its hole: centroid {:?}, expected (1.5, 1)", hollow.centroid()));
            }
            let solid = geo_types::Polygon::new(ring, vec![]);
            if !near(solid.centroid(), 4.0 / 3.0, 1.0) {
                fail(format!("triangle polygon: centroid {:?}, expected (4/3, 1)", solid.centroid()));
            }
            // collections: every member of the top dimension counts, lower-dimensional ones are ignored
            use geo_types::{LineString, MultiLineString, MultiPoint};
            let gc = GeometryCollection(vec![Geometry::Point(Point::new(0.0, 0.0)), Geometry::MultiPoint(MultiPoint(vec![Point::new(2.0, 0.0), Point::new(4.0, 0.0)]))]);
            if !near(gc.centroid(), 2.0, 0.0) {
                fail(format!("point + multi-point: centroid {:?}, expected (2, 0)", gc.centroid()));
            }
            let one: LineString<f64> = vec![(8.0, 8.0)].into();
            let two: LineString<f64> = vec![(0.0, 0.0), (4.0, 0.0), (4.0, 2.0)].into();
            let gc = GeometryCollection(vec![Geometry::Point(Point::new(100.0, 100.0)), Geometry::MultiLineString(MultiLineString(vec![two.clone(), two]))]);
            if !near(gc.centroid(), (2.0 * 4.0 + 4.0 * 2.0) / 6.0, (0.0 * 4.0 + 1.0 * 2.0) / 6.0) {
                fail(format!("point + two equal line strings: centroid {:?}", gc.centroid()));
            }
            if !near(MultiLineString(vec![one]).centroid(), 8.0, 8.0) {
                fail("one-coordinate line string must contribute its coordinate".to_string());
            }
            // rings that do not start at the origin (the formula shifts to the first vertex and back)
            let far: geo_types::LineString<f64> = vec![(10.0, 20.0), (14.0, 20.0), (10.0, 23.0), (10.0, 20.0)].into();
            if !near(geo_types::Polygon::new(far, vec![]).centroid(), 34.0 / 3.0, 21.0) {
                fail("triangle polygon away from the origin: centroid is not the mean of its vertices".to_string());
            }
            let l_shape: geo_types::LineString<f64> = vec![(5.0, 5.0), (9.0, 5.0), (9.0, 7.0), (7.0, 7.0), (7.0, 9.0), (5.0, 9.0), (5.0, 5.0)].into();
            // L = 4x2 rectangle (centre (7,6), area 8) + 2x2 square (centre (6,8), area 4)
            if !near(geo_types::Polygon::new(l_shape, vec![]).centroid(), (7.0 * 8.0 + 6.0 * 4.0) / 12.0, (6.0 * 8.0 + 8.0 * 4.0) / 12.0) {
                fail("L-shaped polygon: centroid differs from the area-weighted mean of its two rectangles".to_string());
            }
            println!("ok centroid contributions");
        }
        "polygon_distance" => {
            use geo::{Distance, Euclidean};
            use geo_types::{LineString, Polygon};
            let sq = |x0: f64, y0: f64, x1: f64, y1: f64| -> LineString<f64> { vec![(x0, y0), (x1, y0), (x1, y1), (x0, y1), (x0, y0)].into() };
            // a polygon without holes inside the hole of another: the distance is to the hole ring
            let outer = Polygon::new(sq(0.0, 0.0, 20.0, 20.0), vec![sq(5.0, 5.0, 15.0, 15.0)]);
            let inner = Polygon::new(sq(9.0, 9.0, 11.0, 12.0), vec![]);
            let (d1, d2) = (Euclidean.distance(&outer, &inner), Euclidean.distance(&inner, &outer));
            if d1 != 3.0 || d2 != 3.0 {
                fail(format!("polygon inside another polygon's hole: distances {d1} / {d2}, expected 3"));
            }
            // both with holes, side by side: shell to shell
            let left = Polygon::new(sq(0.0, 0.0, 10.0, 10.0), vec![sq(4.0, 4.0, 6.0, 6.0)]);
            let right = Polygon::new(sq(12.0, 0.0, 22.0, 10.0), vec![sq(16.0, 4.0, 18.0, 6.0)]);
            if Euclidean.distance(&left, &right) != 2.0 || Euclidean.distance(&right, &left) != 2.0 {
                fail("two polygons with holes side by side: expected 2".to_string());
            }
            // open line strings whose closest approach is at the FIRST / LAST vertex of one of them
            let bar: LineString<f64> = vec![(0.0, 0.0), (10.0, 0.0)].into();
            let stem: LineString<f64> = vec![(5.0, 2.0), (5.0, 6.0), (8.0, 10.0)].into();
            let mets: LineString<f64> = vec![(8.0, 10.0), (5.0, 6.0), (5.0, 2.0)].into();
            for (a, b) in [(&bar, &stem), (&stem, &bar), (&bar, &mets), (&mets, &bar)] {
                let d = Euclidean.distance(a, b);
                if d != 2.0 {
                    fail(format!("line strings {:?} / {:?}: distance {d}, expected 2", a.0, b.0));
                }
            }
            // the other dispatching impls: point / line / line string against lines and holed polygons
            use geo_types::Point;
            let two_holes = Polygon::new(sq(0.0, 0.0, 20.0, 20.0), vec![sq(2.0, 2.0, 4.0, 4.0), sq(10.0, 10.0, 16.0, 16.0)]);
            for (p, want) in [(Point::new(13.0, 13.0), 3.0), (Point::new(3.0, 3.5), 0.5), (Point::new(25.0, 10.0), 5.0), (Point::new(7.0, 7.0), 0.0)] {
                let (d1, d2) = (Euclidean.distance(&p, &two_holes), Euclidean.distance(&two_holes, &p));
                if d1 != want || d2 != want {
                    fail(format!("point {:?} vs polygon with two holes: {d1} / {d2}, expected {want}", p));
                }
            }
            let (la, lb) = (Line::new(coord! {x: 0.0, y: 0.0}, coord! {x: 10.0, y: 0.0}), Line::new(coord! {x: 12.0, y: -1.0}, coord! {x: 12.0, y: 5.0}));
            let (lc, ld) = (Line::new(coord! {x: 4.0, y: 3.0}, coord! {x: 4.0, y: 9.0}), Line::new(coord! {x: 5.0, y: -2.0}, coord! {x: 9.0, y: -6.0}));
            for (a, b, want) in [(&la, &lb, 2.0), (&lb, &la, 2.0), (&la, &lc, 3.0), (&lc, &la, 3.0), (&la, &ld, 2.0), (&ld, &la, 2.0)] {
                let d = Euclidean.distance(a, b);
                if d != want {
                    fail(format!("lines {:?} / {:?}: distance {d}, expected {want}", a, b));
                }
            }
            let zig: LineString<f64> = vec![(0.0, 0.0), (4.0, 0.0), (4.0, 3.0), (8.0, 0.0)].into();
            let top = Line::new(coord! {x: 0.0, y: 5.0}, coord! {x: 10.0, y: 5.0});
            if Euclidean.distance(&top, &zig) != 2.0 || Euclidean.distance(&zig, &top) != 2.0 {
                fail("line vs line string: expected 2".to_string());
            }
            let in_hole = Line::new(coord! {x: 9.0, y: 9.0}, coord! {x: 11.0, y: 9.0});
            if Euclidean.distance(&in_hole, &outer) != 4.0 || Euclidean.distance(&outer, &in_hole) != 4.0 {
                fail(format!("line inside a hole: {}", Euclidean.distance(&in_hole, &outer)));
            }
            let ls_in_hole: LineString<f64> = vec![(9.0, 9.0), (11.0, 9.0), (11.0, 12.0)].into();
            if Euclidean.distance(&ls_in_hole, &outer) != 3.0 || Euclidean.distance(&outer, &ls_in_hole) != 3.0 {
                fail(format!("line string inside a hole: {}", Euclidean.distance(&ls_in_hole, &outer)));
            }
            // multi-part operands: the minimum over EVERY member, the first and the last included
            use geo_types::{Geometry, GeometryCollection, MultiLineString, MultiPoint, MultiPolygon};
            let near_first = MultiPoint(vec![Point::new(3.0, 5.0), Point::new(50.0, 50.0), Point::new(60.0, 60.0)]);
            let near_last = MultiPoint(vec![Point::new(60.0, 60.0), Point::new(50.0, 50.0), Point::new(3.0, 5.0)]);
            for mp_ in [&near_first, &near_last] {
                if Euclidean.distance(mp_, &la) != 5.0 || Euclidean.distance(&la, mp_) != 5.0 || Euclidean.distance(mp_, &Geometry::Line(la)) != 5.0 {
                    fail(format!("multi-point vs line: {}", Euclidean.distance(mp_, &la)));
                }
            }
            let mls = MultiLineString(vec![zig.clone(), vec![(100.0, 100.0), (101.0, 100.0)].into()]);
            let mpoly = MultiPolygon(vec![Polygon::new(sq(100.0, 100.0, 110.0, 110.0), vec![]), two_holes.clone()]);
            let gc = GeometryCollection(vec![Geometry::Point(Point::new(500.0, 500.0)), Geometry::Line(top)]);
            if Euclidean.distance(&mls, &top) != 2.0 || Euclidean.distance(&mpoly, &Point::new(25.0, 10.0)) != 5.0 || Euclidean.distance(&gc, &zig) != 2.0 || Euclidean.distance(&zig, &gc) != 2.0 {
                fail("multi-line-string / multi-polygon / collection: the nearest member was not taken".to_string());
            }
            println!("ok polygon distance");
        }
        "quick_hull_extremes" => {
            use geo::convex_hull::quick_hull;
            // every ordering of a fixed point set (so every position of the least / greatest point)
            let base: [(i64, i64); 6] = [(0, 0), (10, 0), (5, 5), (5, -5), (5, 1), (4, 0)];
            let mut want: Vec<(i64, i64)> = vec![(0, 0), (10, 0), (5, 5), (5, -5)];
            want.sort();
            let mut idx = [0usize, 1, 2, 3, 4, 5];
            let mut count = 0;
            // Heap's algorithm
            let mut cst = [0usize; 6];
            let mut check = |idx: &[usize; 6]| {
                let mut pts: Vec<Coord<i64>> = idx.iter().map(|&k| c(base[k].0, base[k].1)).collect();
                let hull = quick_hull(&mut pts);
                let mut got: Vec<(i64, i64)> = hull.0[..hull.0.len() - 1].iter().map(|p| (p.x, p.y)).collect();
                got.sort();
                if got != want || hull.0.first() != hull.0.last() {
                    fail(format!("quick_hull of {:?} (in this order) = {:?}", idx.iter().map(|&k| base[k]).collect::<Vec<_>>(), hull.0));
                }
            };
            check(&idx);
            let mut i = 0;
            while i < 6 {
                if cst[i] < i {
                    if i % 2 == 0 {
                        idx.swap(0, i);
                    } else {
                        idx.swap(cst[i], i);
                    }
                    check(&idx);
                    count += 1;
                    cst[i] += 1;
                    i = 0;
                } else {
                    cst[i] = 0;
                    i += 1;
                }
            }
            println!("ok quick hull extremes ({} orderings)", count + 1);
        }
        "relate_units" => {
            use geo::coordinate_position::CoordPos;
            use geo::dimensions::Dimensions;
            use geo::Relate;
            use geo_types::{LineString, MultiLineString, Point, Polygon};
            // mod-2 rule: an end point shared by two members is interior, by three it is boundary again
            let seg = |x: f64, y: f64| -> LineString<f64> { vec![(1.0, 0.0), (x, y)].into() };
            let p = Point::new(1.0, 0.0);
            let two = MultiLineString(vec![seg(0.0, 0.0), seg(2.0, 0.0)]);
            let three = MultiLineString(vec![seg(0.0, 0.0), seg(2.0, 0.0), seg(1.0, 5.0)]);
            let four = MultiLineString(vec![seg(0.0, 0.0), seg(2.0, 0.0), seg(1.0, 5.0), seg(1.0, -5.0)]);
            for (g, on_boundary) in [(&two, false), (&three, true), (&four, false)] {
                let m = g.relate(&p);
                let (b, i) = (m.get(CoordPos::OnBoundary, CoordPos::Inside), m.get(CoordPos::Inside, CoordPos::Inside));
                let ok = if on_boundary { b == Dimensions::ZeroDimensional && i == Dimensions::Empty } else { b == Dimensions::Empty && i == Dimensions::ZeroDimensional };
                if !ok {
                    fail(format!("{} line ends meeting in a point: boundary/interior entries {:?}/{:?}", g.0.len(), b, i));
                }
            }
            // edge-end order around a node decided by an orientation whose exact value is +1 at magnitude 2^54
            let k = 134217728.0f64;
            let tri = Polygon::new(LineString::from(vec![(0.0, 0.0), (k + 1.0, k), (0.0, 2.0 * k), (0.0, 0.0)]), vec![]);
            let b: LineString<f64> = vec![(0.0, 0.0), ((k + 2.0) / 2.0, (k + 1.0) / 2.0)].into();
            use std::str::FromStr;
            let (m, t) = (b.relate(&tri), tri.relate(&b));
            if m != geo::relate::IntersectionMatrix::from_str("1FF00F212").unwrap() || t != geo::relate::IntersectionMatrix::from_str("102F01FF2").unwrap() {
                fail(format!("segment leaving a triangle vertex into its interior: matrices {:?} / {:?}", m, t));
            }
            println!("ok relate units");
        }
        "polygon_validation" => {
            use geo::algorithm::validation::{InvalidPolygon, RingRole};
            use geo::algorithm::Validation;
            use geo_types::{LineString, Polygon};
            let sq = |x0: f64, y0: f64, x1: f64, y1: f64| -> LineString<f64> { vec![(x0, y0), (x1, y0), (x1, y1), (x0, y1), (x0, y0)].into() };
            let empty = || -> LineString<f64> { LineString::new(vec![]) };
            // empty holes keep their position: nothing to report, and roles index interiors()
            let good = Polygon::new(sq(0.0, 0.0, 10.0, 10.0), vec![empty(), sq(2.0, 2.0, 4.0, 4.0), empty(), sq(6.0, 6.0, 8.0, 8.0)]);
            if !good.validation_errors().is_empty() {
                fail(format!("valid polygon with empty holes between good ones: {:?}", good.validation_errors()));
            }
            let outside = Polygon::new(sq(0.0, 0.0, 10.0, 10.0), vec![empty(), sq(20.0, 20.0, 22.0, 22.0)]);
            let errs = outside.validation_errors();
            if errs != vec![InvalidPolygon::InteriorRingNotContainedInExteriorRing(RingRole::Interior(1))] {
                fail(format!("hole number 1 lies outside the shell: reported {:?}", errs));
            }
            let overlap = Polygon::new(sq(0.0, 0.0, 10.0, 10.0), vec![sq(2.0, 2.0, 5.0, 5.0), empty(), sq(4.0, 4.0, 7.0, 7.0)]);
            let errs = overlap.validation_errors();
            if errs != vec![InvalidPolygon::IntersectingRingsOnAnArea(RingRole::Interior(0), RingRole::Interior(2))] {
                fail(format!("holes 0 and 2 overlap: reported {:?}", errs));
            }
            // MultiPolygon: pair errors carry (earlier, later) member indices, own errors the member index
            use geo::algorithm::validation::{GeometryIndex, InvalidMultiPolygon};
            use geo_types::MultiPolygon;
            let solid = |x0: f64, y0: f64, x1: f64, y1: f64| Polygon::new(sq(x0, y0, x1, y1), vec![]);
            let cases: Vec<(MultiPolygon<f64>, Vec<InvalidMultiPolygon>)> = vec![
                (MultiPolygon(vec![solid(0.0, 0.0, 4.0, 4.0), solid(10.0, 10.0, 12.0, 12.0), solid(2.0, 2.0, 6.0, 6.0)]),
                 vec![InvalidMultiPolygon::ElementsOverlaps(GeometryIndex(0), GeometryIndex(2))]),
                (MultiPolygon(vec![solid(10.0, 10.0, 12.0, 12.0), solid(0.0, 0.0, 4.0, 4.0), solid(4.0, 0.0, 8.0, 4.0)]),
                 vec![InvalidMultiPolygon::ElementsTouchOnALine(GeometryIndex(1), GeometryIndex(2))]),
                (MultiPolygon(vec![solid(0.0, 0.0, 4.0, 4.0), Polygon::new(sq(10.0, 10.0, 20.0, 20.0), vec![empty(), sq(30.0, 30.0, 32.0, 32.0)])]),
                 vec![InvalidMultiPolygon::InvalidPolygon(GeometryIndex(1), InvalidPolygon::InteriorRingNotContainedInExteriorRing(RingRole::Interior(1)))]),
                (MultiPolygon(vec![solid(0.0, 0.0, 4.0, 4.0), solid(4.0, 4.0, 8.0, 8.0)]), vec![]),
            ];
            for (mp, want) in cases {
                if mp.validation_errors() != want {
                    fail(format!("multi-polygon validation reported {:?}, expected {:?}", mp.validation_errors(), want));
                }
            }
            println!("ok polygon validation");
        }
        "interior_point_scan_line" => {
            use geo::{Contains, InteriorPoint, Intersects};
            use geo_types::{LineString, Polygon};
            // polygons with a vertex at half height and further vertices between it and the top / bottom
            let ring = |v: Vec<(f64, f64)>| -> LineString<f64> { v.into() };
            let cases = vec![
                Polygon::new(ring(vec![(0.0, 0.0), (10.0, 0.0), (10.0, 4.0), (10.0, 8.0), (0.0, 8.0), (0.0, 0.0)]),
                             vec![ring(vec![(2.0, 2.0), (8.0, 2.0), (8.0, 3.0), (2.0, 3.0), (2.0, 2.0)])]),
                Polygon::new(ring(vec![(0.0, 0.0), (10.0, 0.0), (10.0, 8.0), (0.0, 8.0), (0.0, 0.0)]),
                             vec![ring(vec![(2.0, 2.0), (8.0, 2.0), (8.0, 3.0), (2.0, 3.0), (2.0, 2.0)]), ring(vec![(4.0, 6.0), (5.0, 4.0), (6.0, 6.0), (4.0, 6.0)])]),
                Polygon::new(ring(vec![(0.0, 2.0), (6.0, 2.0), (6.0, 0.0), (10.0, 0.0), (10.0, 4.0), (10.0, 8.0), (0.0, 8.0), (0.0, 2.0)]), vec![]),
                Polygon::new(ring(vec![(0.0, 0.0), (8.0, 2.0), (0.0, 4.0), (3.0, 3.0), (0.0, 0.0)]), vec![]),
            ];
            for p in &cases {
                match p.interior_point() {
                    Some(q) if p.intersects(&q) && p.contains(&q) => {}
                    other => fail(format!("interior_point of {:?} = {:?}: not strictly inside", p, other)),
                }
            }
            // multi-part geometries return a member's own point: the widest polygon's, the point nearest the centroid
            use geo_types::{MultiPoint, MultiPolygon, Point};
            let sq = |x0: f64, y0: f64, x1: f64, y1: f64| Polygon::new(ring(vec![(x0, y0), (x1, y0), (x1, y1), (x0, y1), (x0, y0)]), vec![]);
            for members in [vec![sq(0.0, 0.0, 2.0, 2.0), sq(10.0, 0.0, 18.0, 4.0), sq(30.0, 0.0, 33.0, 3.0)], vec![sq(10.0, 0.0, 18.0, 4.0), sq(0.0, 0.0, 2.0, 2.0)]] {
                let mp = MultiPolygon(members);
                match mp.interior_point() {
                    Some(q) if q == Point::new(14.0, 2.0) && mp.contains(&q) => {}
                    other => fail(format!("multi-polygon interior_point = {:?}, expected the middle of the widest member", other)),
                }
            }
            let pts = MultiPoint(vec![Point::new(5.0, 1.0), Point::new(1.0, 3.0), Point::new(3.0, 2.0)]);
            if pts.interior_point() != Some(Point::new(3.0, 2.0)) || MultiPoint::<f64>(vec![]).interior_point().is_some() {
                fail(format!("multi-point interior_point = {:?}", pts.interior_point()));
            }
            println!("ok interior point scan line");
        }
        "position_assembly" => {
            use geo::coordinate_position::{CoordPos, CoordinatePosition};
            use geo_types::{LineString, MultiLineString, MultiPolygon, Polygon};
            let sq = |x0: i64, y0: i64, x1: i64, y1: i64| -> LineString<i64> { vec![(x0, y0), (x1, y0), (x1, y1), (x0, y1), (x0, y0)].into() };
            // two holes touching in the point (6, 6)
            let p = Polygon::new(sq(0, 0, 20, 20), vec![sq(2, 2, 6, 6), sq(6, 6, 10, 10)]);
            for ((x, y), want) in [((4, 4), CoordPos::Outside), ((8, 8), CoordPos::Outside), ((6, 6), CoordPos::OnBoundary), ((2, 4), CoordPos::OnBoundary), ((8, 10), CoordPos::OnBoundary),
                                   ((15, 15), CoordPos::Inside), ((4, 8), CoordPos::Inside), ((0, 7), CoordPos::OnBoundary), ((20, 20), CoordPos::OnBoundary), ((25, 5), CoordPos::Outside)] {
                let got = p.coordinate_position(&c(x, y));
                if got != want {
                    fail(format!("polygon with two touching holes, query ({x}, {y}): {:?}, expected {:?}", got, want));
                }
            }
            // members sharing a vertex / an end point
            let mp = MultiPolygon(vec![Polygon::new(sq(0, 0, 4, 4), vec![]), Polygon::new(sq(4, 4, 8, 8), vec![]), Polygon::new(sq(4, -4, 8, 0), vec![])]);
            for ((x, y), want) in [((4, 4), CoordPos::OnBoundary), ((4, 0), CoordPos::OnBoundary), ((2, 2), CoordPos::Inside), ((6, 6), CoordPos::Inside), ((6, 2), CoordPos::Outside), ((0, 2), CoordPos::OnBoundary)] {
                let got = mp.coordinate_position(&c(x, y));
                if got != want {
                    fail(format!("multi-polygon of squares touching in vertices, query ({x}, {y}): {:?}, expected {:?}", got, want));
                }
            }
            let seg = |x: i64, y: i64| -> LineString<i64> { vec![(1, 0), (x, y)].into() };
            // (an EVEN number of ends meeting in the query is the listed finding of C02 - not asserted here)
            for (n, want) in [(1usize, CoordPos::OnBoundary), (3, CoordPos::OnBoundary)] {
                let all = [seg(0, 0), seg(2, 0), seg(1, 5), seg(1, -5)];
                let m = MultiLineString(all[..n].to_vec());
                let got = m.coordinate_position(&c(1, 0));
                if got != want {
                    fail(format!("{n} line strings ending in the query point: {:?}, expected {:?}", got, want));
                }
            }
            // fixed-size shapes: corners and end points count once
            use geo_types::Rect;
            let r = Rect::new(c(1, 1), c(5, 4));
            for ((x, y), want) in [((1, 1), CoordPos::OnBoundary), ((5, 4), CoordPos::OnBoundary), ((1, 4), CoordPos::OnBoundary), ((3, 1), CoordPos::OnBoundary), ((3, 2), CoordPos::Inside), ((0, 2), CoordPos::Outside), ((6, 4), CoordPos::Outside)] {
                if r.coordinate_position(&c(x, y)) != want {
                    fail(format!("rect, query ({x}, {y}): {:?}, expected {:?}", r.coordinate_position(&c(x, y)), want));
                }
            }
            let l = Line::new(c(0, 0), c(6, 4));
            for ((x, y), want) in [((0, 0), CoordPos::OnBoundary), ((6, 4), CoordPos::OnBoundary), ((3, 2), CoordPos::Inside), ((3, 1), CoordPos::Outside), ((9, 6), CoordPos::Outside)] {
                if l.coordinate_position(&c(x, y)) != want {
                    fail(format!("line, query ({x}, {y}): {:?}, expected {:?}", l.coordinate_position(&c(x, y)), want));
                }
            }
            // the non-relate Contains impls built on it
            use geo::Contains;
            use geo_types::{MultiPoint, Point};
            let pts = |v: &[(i64, i64)]| MultiPoint(v.iter().map(|&(x, y)| Point::new(x, y)).collect::<Vec<_>>());
            let checks = [
                (mp.contains(&pts(&[(2, 2), (0, 2)])), true, "interior + boundary point"),
                (mp.contains(&pts(&[(0, 2), (4, 4)])), false, "boundary points only"),
                (mp.contains(&pts(&[(2, 2), (6, 2)])), false, "one point outside"),
                (mp.contains(&pts(&[])), false, "empty multi-point"),
                (mp.contains(&c(4, 4)), false, "vertex shared by two members"),
                (mp.contains(&c(6, 6)), true, "interior of the second member"),
                (p.contains(&c(2, 4)), false, "point on a hole's boundary"),
                (p.contains(&c(15, 15)), true, "interior point"),
                (p.contains(&c(4, 4)), false, "point inside a hole"),
            ];
            for (got, want, what) in checks {
                if got != want {
                    fail(format!("contains: {what}: {got}, expected {want}"));
                }
            }
            println!("ok position assembly");
        }
        "area_assembly" => {
            use geo::Area;
            use geo_types::{Geometry, GeometryCollection, LineString, MultiPolygon, Polygon, Rect, Triangle};
            let ccw = |x0: f64, y0: f64, x1: f64, y1: f64| -> LineString<f64> { vec![(x0, y0), (x1, y0), (x1, y1), (x0, y1), (x0, y0)].into() };
            let cw = |x0: f64, y0: f64, x1: f64, y1: f64| -> LineString<f64> { vec![(x0, y0), (x0, y1), (x1, y1), (x1, y0), (x0, y0)].into() };
            // holes of mixed orientation: 100 - 4 - 9, sign of the shell
            let p = Polygon::new(ccw(0.0, 0.0, 10.0, 10.0), vec![cw(1.0, 1.0, 3.0, 3.0), ccw(5.0, 5.0, 8.0, 8.0)]);
            let q = Polygon::new(cw(0.0, 0.0, 10.0, 10.0), vec![cw(1.0, 1.0, 3.0, 3.0), ccw(5.0, 5.0, 8.0, 8.0)]);
            if p.signed_area() != 87.0 || p.unsigned_area() != 87.0 || q.signed_area() != -87.0 || q.unsigned_area() != 87.0 {
                fail(format!("polygon with holes of mixed orientation: {} {} {} {}", p.signed_area(), p.unsigned_area(), q.signed_area(), q.unsigned_area()));
            }
            let mp = MultiPolygon(vec![p.clone(), q.clone(), Polygon::new(ccw(20.0, 0.0, 22.0, 2.0), vec![])]);
            if mp.signed_area() != 4.0 || mp.unsigned_area() != 178.0 {
                fail(format!("multi-polygon: signed {} unsigned {}", mp.signed_area(), mp.unsigned_area()));
            }
            let t = Triangle(coord! {x: 0.0, y: 0.0}, coord! {x: 0.0, y: 3.0}, coord! {x: 4.0, y: 0.0});
            let r = Rect::new(coord! {x: 1.0, y: 1.0}, coord! {x: 4.0, y: 3.0});
            if t.signed_area() != -6.0 || t.unsigned_area() != 6.0 || r.signed_area() != 6.0 || r.unsigned_area() != 6.0 {
                fail(format!("triangle {} {} rect {} {}", t.signed_area(), t.unsigned_area(), r.signed_area(), r.unsigned_area()));
            }
            let gc = GeometryCollection(vec![Geometry::Polygon(q), Geometry::Triangle(t), Geometry::Rect(r)]);
            if gc.signed_area() != -87.0 - 6.0 + 6.0 || gc.unsigned_area() != 99.0 {
                fail(format!("collection: signed {} unsigned {}", gc.signed_area(), gc.unsigned_area()));
            }
            println!("ok area assembly");
        }
        "bounding_rect" => {
            use geo::BoundingRect;
            use geo_types::{Geometry, GeometryCollection, LineString, MultiPoint, Point, Polygon, Rect};
            // every ordering of four coordinates whose extremes are all different coordinates
            let pts = [(3i64, 0i64), (0, 2), (-4, 1), (1, -5)];
            let want = Rect::new(c(-4, -5), c(3, 2));
            for a in 0..4 {
                for b in 0..4 {
                    for d in 0..4 {
                        for e in 0..4 {
                            let idx = [a, b, d, e];
                            if (0..4).any(|k| !idx.contains(&k)) {
                                continue;
                            }
                            let ls: LineString<i64> = idx.iter().map(|&k| pts[k]).collect::<Vec<_>>().into();
                            if ls.bounding_rect() != Some(want) {
                                fail(format!("bounding_rect of {:?} = {:?}", ls.0, ls.bounding_rect()));
                            }
                        }
                    }
                }
            }
            let none: LineString<i64> = LineString::new(vec![]);
            if none.bounding_rect().is_some() {
                fail("bounding_rect of an empty line string".to_string());
            }
            // collection: members without a box are skipped wherever they stand, boxes are merged
            let empty = || Geometry::MultiPoint(MultiPoint::<i64>(vec![]));
            let tri = Geometry::Polygon(Polygon::new(vec![(0, 0), (5, 1), (2, 7), (0, 0)].into(), vec![]));
            let far = Geometry::Point(Point::new(-3, 9));
            for members in [vec![empty(), tri.clone(), far.clone()], vec![tri.clone(), empty(), far.clone()], vec![far.clone(), tri.clone(), empty()]] {
                let gc = GeometryCollection(members);
                if gc.bounding_rect() != Some(Rect::new(c(-3, 0), c(5, 9))) {
                    fail(format!("collection bounding_rect = {:?}", gc.bounding_rect()));
                }
            }
            if GeometryCollection(vec![empty(), empty()]).bounding_rect().is_some() || GeometryCollection::<i64>(vec![]).bounding_rect().is_some() {
                fail("collection without coordinates has a bounding_rect".to_string());
            }
            println!("ok bounding rect");
        }
        "raw_line_intersection" => {
            use geo::line_intersection::{line_intersection, LineIntersection};
            let l = |a: (f64, f64), b: (f64, f64)| Line::new(coord! {x: a.0, y: a.1}, coord! {x: b.0, y: b.1});
            for (p, q, want) in [(l((0.0, 0.0), (4.0, 4.0)), l((0.0, 4.0), (4.0, 0.0)), (2.0, 2.0)),
                                 (l((0.0, 0.0), (10.0, 0.0)), l((3.0, -1.0), (3.0, 5.0)), (3.0, 0.0)),
                                 (l((0.0, 2.0), (4.0, 4.0)), l((1.0, 5.0), (3.0, 1.0)), (2.0, 3.0)),
                                 (l((-7.0, -3.0), (9.0, 5.0)), l((5.0, -9.0), (-3.0, 7.0)), (0.2, 0.6))] {
                for (a, b) in [(p, q), (q, p)] {
                    match line_intersection(a, b) {
                        Some(LineIntersection::SinglePoint { intersection, is_proper: true }) if (intersection.x - want.0).abs() < 1e-9 && (intersection.y - want.1).abs() < 1e-9 => {}
                        other => fail(format!("{:?} x {:?}: {:?}, expected a proper crossing at {:?}", a, b, other, want)),
                    }
                }
            }
            println!("ok raw line intersection");
        }
        "line_locate_point" => {
            use geo::LineLocatePoint;
            use geo_types::{LineString, Point};
            let l = Line::new(coord! {x: 1.0, y: 1.0}, coord! {x: 5.0, y: 4.0});
            let near = |a: Option<f64>, b: f64| matches!(a, Some(v) if (v - b).abs() < 1e-12);
            let ok = near(l.line_locate_point(&Point::new(1.0, 1.0)), 0.0)
                && near(l.line_locate_point(&Point::new(2.0, 1.75)), 0.25)
                && near(l.line_locate_point(&Point::new(5.0, 4.0)), 1.0)
                && near(l.line_locate_point(&Point::new(9.0, 7.0)), 1.0)
                && near(l.line_locate_point(&Point::new(-3.0, -2.0)), 0.0)
                && near(l.line_locate_point(&Point::new(3.0 - 3.0, 2.5 + 4.0)), 0.5)
                && near(Line::new(coord! {x: 2.0, y: 2.0}, coord! {x: 2.0, y: 2.0}).line_locate_point(&Point::new(7.0, 7.0)), 0.0);
            if !ok {
                fail("Line::line_locate_point differs from the clamped projection parameter".to_string());
            }
            // segments of length 3, 4, 3; ties in distance go to the FIRST segment
            let ls: LineString<f64> = vec![(0.0, 0.0), (3.0, 0.0), (3.0, 4.0), (0.0, 4.0)].into();
            for (q, want) in [((1.0, 0.0), 0.1), ((3.0, 2.0), 0.5), ((1.5, 4.0), 0.85), ((1.0, 1.0), 0.1), ((2.0, 5.0), 0.8), ((4.0, -1.0), 0.3), ((0.0, 4.0), 1.0)] {
                if !near(ls.line_locate_point(&Point::new(q.0, q.1)), want) {
                    fail(format!("LineString::line_locate_point({:?}) = {:?}, expected {want}", q, ls.line_locate_point(&Point::new(q.0, q.1))));
                }
            }
            println!("ok line locate point");
        }
        "compose_many_i64" => {
            let a = AffineTransform::translate(1i64, 2);
            let b1 = AffineTransform::new(2i64, 0, 0, 0, 3, 0);
            let b2 = AffineTransform::new(0i64, -1, 0, 1, 0, 5);
            let b3 = AffineTransform::new(1i64, 1, 0, 0, 1, 0);
            for p in [c(1, 1), c(-3, 4), c(0, 0)] {
                let seq = |ts: &[AffineTransform<i64>]| ts.iter().fold(a.apply(p), |q, t| t.apply(q));
                for ts in [vec![], vec![b1], vec![b1, b2], vec![b2, b1], vec![b1, b2, b3], vec![b3, b1, b2]] {
                    let got = a.compose_many(&ts).apply(p);
                    if got != seq(&ts) {
                        fail(format!("compose_many of {} transforms applied to {:?}: {:?}, sequential application gives {:?}", ts.len(), p, got, seq(&ts)));
                    }
                }
            }
            println!("ok compose many");
        }
        "extremes" => {
            use geo::Extremes;
            use geo_types::{LineString, MultiPolygon, Polygon};
            let sq = |x0: i64, y0: i64, x1: i64, y1: i64| -> LineString<i64> { vec![(x0, y0), (x1, y0), (x1, y1), (x0, y1), (x0, y0)].into() };
            // indices refer to the EXTERIOR traversal: the hole of the first member does not shift them
            let mp = MultiPolygon(vec![Polygon::new(sq(0, 0, 4, 4), vec![sq(1, 1, 2, 2)]), Polygon::new(sq(10, 10, 12, 12), vec![])]);
            let e = mp.extremes().unwrap();
            let got = [(e.x_min.index, e.x_min.coord), (e.y_min.index, e.y_min.coord), (e.x_max.index, e.x_max.coord), (e.y_max.index, e.y_max.coord)];
            let want = [(0usize, c(0, 0)), (0, c(0, 0)), (6, c(12, 10)), (7, c(12, 12))];
            if got != want {
                fail(format!("extremes of a multi-polygon whose first member has a hole: {:?}, expected {:?}", got, want));
            }
            // a hole reaching outside the shell (invalid, but extremes is about the exterior only)
            let odd = Polygon::new(sq(0, 0, 4, 4), vec![sq(1, 1, 9, 2)]);
            let e = odd.extremes().unwrap();
            if (e.x_max.index, e.x_max.coord) != (1, c(4, 0)) {
                fail(format!("extremes looked at an interior ring: x_max {:?}", e.x_max));
            }
            let none: LineString<i64> = LineString::new(vec![]);
            if none.extremes().is_some() {
                fail("extremes of an empty line string".to_string());
            }
            println!("ok extremes");
        }
        "line_intersection_zero_length" => {
            use geo::line_intersection::{line_intersection, LineIntersection};
            use geo::Intersects;
            let seg = Line::new(coord! {x: 0.0, y: 0.0}, coord! {x: 6.0, y: 4.0});
            for ((x, y), on) in [((3.0, 1.0), false), ((3.0, 2.0), true), ((0.0, 0.0), true), ((6.0, 4.0), true), ((5.0, 1.0), false), ((9.0, 6.0), false)] {
                let pt = Line::new(coord! {x: x, y: y}, coord! {x: x, y: y});
                for (a, b) in [(pt, seg), (seg, pt)] {
                    let r = line_intersection(a, b);
                    let ok = match r {
                        None => !on,
                        Some(LineIntersection::SinglePoint { intersection, .. }) => on && intersection == pt.start,
                        Some(LineIntersection::Collinear { intersection }) => on && intersection.start == pt.start && intersection.end == pt.start,
                    };
                    if !ok || a.intersects(&b) != on {
                        fail(format!("{:?} x {:?}: line_intersection {:?}, intersects {}, point on segment: {on}", a, b, r, a.intersects(&b)));
                    }
                }
            }
            println!("ok zero-length operands");
        }
        "closest_of" => {
            use geo::{Closest, ClosestPoint};
            use geo_types::{LineString, MultiLineString, MultiPoint, Point};
            let q = Point::new(0.0, 0.0);
            // a repeated vertex (zero-length member) anywhere must not end or spoil the search
            for ls in [vec![(5.0, 5.0), (5.0, 5.0), (3.0, 0.0), (3.0, 4.0)], vec![(3.0, 4.0), (3.0, 0.0), (3.0, 0.0), (5.0, 5.0)], vec![(3.0, 4.0), (3.0, 0.0), (5.0, 5.0), (5.0, 5.0)]] {
                let l: LineString<f64> = ls.clone().into();
                if l.closest_point(&q) != Closest::SinglePoint(Point::new(3.0, 0.0)) {
                    fail(format!("closest point of {:?} to the origin: {:?}", ls, l.closest_point(&q)));
                }
            }
            // the first intersection wins; otherwise the minimum over all members
            let a: LineString<f64> = vec![(2.0, 2.0), (4.0, 2.0)].into();
            let b: LineString<f64> = vec![(-1.0, 0.0), (1.0, 0.0)].into();
            let far: LineString<f64> = vec![(9.0, 9.0), (9.0, 8.0)].into();
            let m = MultiLineString(vec![a.clone(), far.clone(), b.clone()]);
            if m.closest_point(&q) != Closest::Intersection(q) {
                fail(format!("multi-line-string with a member through the query: {:?}", m.closest_point(&q)));
            }
            let m = MultiLineString(vec![far.clone(), a.clone(), far]);
            if m.closest_point(&q) != Closest::SinglePoint(Point::new(2.0, 2.0)) {
                fail(format!("multi-line-string, nearest member in the middle: {:?}", m.closest_point(&q)));
            }
            let none = MultiPoint::<f64>(vec![]);
            if none.closest_point(&q) != Closest::Indeterminate {
                fail("closest point of an empty multi-point".to_string());
            }
            println!("ok closest of");
        }
        "matrix_predicates" => {
            use geo::relate::IntersectionMatrix;
            use std::str::FromStr;
            let sym = ['F', '0', '1', '2'];
            let any = |m: &IntersectionMatrix, masks: &[&str]| masks.iter().any(|k| m.matches(k).unwrap());
            let mut n = 0u32;
            for code in 0..(4u32.pow(9)) {
                let s: String = (0..9).map(|k| sym[((code >> (2 * k)) & 3) as usize]).collect();
                let m = IntersectionMatrix::from_str(&s).unwrap();
                let ok = m.is_disjoint() == any(&m, &["FF*FF****"])
                    && m.is_intersects() != any(&m, &["FF*FF****"])
                    && m.is_within() == any(&m, &["T*F**F***"])
                    && m.is_contains() == any(&m, &["T*****FF*"])
                    && m.is_coveredby() == any(&m, &["T*F**F***", "*TF**F***", "**FT*F***", "**F*TF***"])
                    && m.is_covers() == any(&m, &["T*****FF*", "*T****FF*", "***T**FF*", "****T*FF*"])
                    && m.is_touches() == any(&m, &["FT*******", "F**T*****", "F***T****"]);
                // the dimension-dependent predicates: dim A / dim B = maxima of row I / column I
                let d = |k: usize| ((code >> (2 * k)) & 3) as i32; // 0 = F, 1 = '0', 2 = '1', 3 = '2'
                let (da, db) = (d(0).max(d(1)).max(d(2)), d(0).max(d(3)).max(d(6)));
                let crosses = if da < db { any(&m, &["T*T******"]) } else if da > db { any(&m, &["T*****T**"]) } else { da == 2 && any(&m, &["0********"]) };
                let overlaps = if da == 2 && db == 2 { any(&m, &["1*T***T**"]) } else if (da == 1 && db == 1) || (da == 3 && db == 3) { any(&m, &["T*T***T**"]) } else { false };
                let equal = s == "FFFFFFFF2" || any(&m, &["T*F**FFF*"]);
                let ok = ok && m.is_crosses() == crosses && m.is_overlaps() == overlaps && m.is_equal_topo() == equal;
                if !ok {
                    fail(format!("a named predicate of the matrix {s} differs from its DE-9IM mask"));
                }
                n += 1;
            }
            println!("ok matrix predicates ({n} matrices)");
        }
        _ => {
            eprintln!("unknown op {op}");
            std::process::exit(4);
        }
    }
}
