//! C14 — validation (PARTIAL: ring-level units through the hooks and the fixed-size types;
//! ring-vs-ring and member-vs-member clauses go through relate and are not admitted; `is_valid`
//! itself cannot be compiled by Kani 0.68).  `f32` + S-ORIENT.
use crate::gen::*;
use crate::oracle::*;
use crate::Src;
use geo::algorithm::validation::kani_hooks as vh;
use geo::Validation;
use geo_types::{coord, Coord, Line, Point, Rect, Triangle};

/// ring-level acceptance of a closed 3-ring: accepted iff it is a simple closed curve enclosing
/// area.  `collinear`: Some(false) excludes / Some(true) selects the class of the listed finding.
pub fn ring3<S: Src>(s: &mut S, n: i8, collinear: Option<bool>) {
    let (a, b, c) = (gp(s, n), gp(s, n), gp(s, n));
    let cls = crate::known::ring_all_vertices_collinear_and_distinct(a, b, c);
    if let Some(k) = collinear {
        vassume!(cls == k);
    }
    let ring = ls_f(&[a, b, c, a]);
    let few = vh::check_too_few_points(&ring, true);
    let selfx = vh::linestring_has_self_intersection(&ring);
    // fewer than 4 coordinates after dropping repeated consecutive points
    let distinct = (a != b) as u8 + (b != c) as u8 + (c != a) as u8;
    assert!(few == (distinct < 3), "check_too_few_points differs from 'fewer than 4 coordinates after removing repeats'");
    let ok = a != b && b != c && c != a && orient(a, b, c) != 0;
    assert!((!few && !selfx) == ok, "ring-level validation does not accept exactly the simple rings enclosing area");
    if collinear != Some(true) {
        vcover!(ok, "valid ring");
        vcover!(few, "ring with a repeated vertex");
    }
    if collinear != Some(false) {
        vcover!(cls, "three distinct collinear vertices");
    }
    core::mem::forget(ring);
}

/// closed 4-rings: self-intersection detection against the exact simple-ring test
pub fn ring4<S: Src>(s: &mut S, n: i8) {
    let (a, b, c, d) = (gp(s, n), gp(s, n), gp(s, n), gp(s, n));
    vassume!(a != b && b != c && c != d && d != a); // no repeated consecutive points
    // exclude the listed finding's class (zero-area rings whose overlapping edges are adjacent)
    vassume!(!(orient(a, b, c) == 0 && orient(b, c, d) == 0));
    vassume!(orient(a, b, c) != 0 && orient(b, c, d) != 0 && orient(c, d, a) != 0 && orient(d, a, b) != 0);
    let pts = [a, b, c, d, a];
    let ring = ls_f(&pts);
    let selfx = vh::linestring_has_self_intersection(&ring);
    assert!(!vh::check_too_few_points(&ring, true), "4 distinct consecutive vertices reported as too few");
    assert!(selfx == !ring_is_simple(&pts), "linestring_has_self_intersection differs from the exact simple-ring test");
    vcover!(selfx, "bow tie");
    vcover!(!selfx && orient(a, b, c) * orient(b, c, d) < 0, "valid concave quadrilateral");
    core::mem::forget(ring);
}

/// fixed-size types: errors exactly for non-finite coordinates and the documented degeneracies
pub fn simple_types<S: Src>(s: &mut S) {
    let (x, y) = (s.f32(), s.f32());
    let a = gp(s, 2);
    let c: Coord<f32> = coord! {x: x, y: y};
    let fin = x.is_finite() && y.is_finite();
    assert!(vh::check_coord_is_not_finite(&c) == !fin, "check_coord_is_not_finite");
    let p = Point(c);
    assert!(p.validation_errors().is_empty() == fin, "Point validation: errors exactly for non-finite coordinates");
    let l = Line::new(c, cf(a));
    assert!(l.validation_errors().is_empty() == (fin && c != cf(a)), "Line validation: errors exactly for non-finite or identical coordinates");
    let r = Rect::new(cf(a), cf((a.0 + 1, a.1 + 1)));
    assert!(r.validation_errors().is_empty(), "a finite Rect must be valid");
    vcover!(x.is_nan(), "NaN coordinate");
    vcover!(x.is_infinite() && y.is_finite(), "one infinite coordinate");
    vcover!(fin && c == cf(a), "identical line end points");
}

pub fn triangle_valid<S: Src>(s: &mut S, n: i8) {
    let (a, b, c) = (gp(s, n), gp(s, n), gp(s, n));
    let t = Triangle(cf(a), cf(b), cf(c));
    let e = t.validation_errors();
    assert!(e.is_empty() == (orient(a, b, c) != 0), "Triangle validation: valid exactly when the vertices are not collinear");
    vcover!(a == b && b != c, "two identical vertices");
    vcover!(orient(a, b, c) == 0 && a != b && b != c && a != c, "collinear distinct vertices");
    core::mem::forget(e);
}

harnesses! {
    #[kani::unwind(7)] #[kani::stub(robust::orient2d, crate::stubs::orient2d_small)] fn c14_ring3_g1(s) { ring3(s, 1, Some(false)) }
    #[kani::unwind(7)] #[kani::stub(robust::orient2d, crate::stubs::orient2d_small)] fn c14_ring3_g1_kf_collinear(s) { ring3(s, 1, Some(true)) }
    #[kani::unwind(7)] #[kani::stub(robust::orient2d, crate::stubs::orient2d_small)] fn c14_ring3_g2(s) { ring3(s, 2, Some(false)) }
    #[kani::unwind(7)] #[kani::stub(robust::orient2d, crate::stubs::orient2d_small)] fn c14_ring3_g2_kf_collinear(s) { ring3(s, 2, Some(true)) }
    #[kani::unwind(8)] #[kani::stub(robust::orient2d, crate::stubs::orient2d_small)] fn c14_ring4_g1(s) { ring4(s, 1) }
    #[kani::unwind(5)] fn c14_simple_types(s) { simple_types(s) }
    #[kani::unwind(5)] #[kani::stub(robust::orient2d, crate::stubs::orient2d_small)] fn c14_triangle_g2(s) { triangle_valid(s, 2) }
    #[kani::unwind(7)] #[kani::stub(robust::orient2d, crate::stubs::orient2d_small)] fn c14_sanity_must_fail(s) {
        ring3(s, 1, Some(false));
        assert!(false, "sanity twin reached its end");
    }
}
