//! C12 — closest and interior points (PARTIAL: polygon interior_point runs the sweep and is not
//! admitted).  `f32` + S-ORIENT + S-HYPOT.
use crate::c07::pt_seg_d2;
use crate::gen::*;
use crate::oracle::*;
use crate::Src;
use geo::{Closest, ClosestPoint, InteriorPoint};
use geo_types::{LineString, MultiPoint, Point, Rect, Triangle};

fn d2_close(c: Point<f32>, p: P, num: W, den: W) -> bool {
    let (dx, dy) = (c.x() - p.0 as f32, c.y() - p.1 as f32);
    let lhs = (dx * dx + dy * dy) * (den as f32);
    (lhs - num as f32).abs() <= 0.0005 * (num as f32) + 0.00001
}

/// c lies on segment [a,b] up to rounding
fn on_seg_approx(c: Point<f32>, a: P, b: P) -> bool {
    let (ax, ay, bx, by) = (a.0 as f32, a.1 as f32, b.0 as f32, b.1 as f32);
    let cross = (bx - ax) * (c.y() - ay) - (by - ay) * (c.x() - ax);
    let e = 0.0001f32;
    cross.abs() <= e * 8.0 && c.x() >= ax.min(bx) - e && c.x() <= ax.max(bx) + e && c.y() >= ay.min(by) - e && c.y() <= ay.max(by) + e
}

pub fn closest_line<S: Src>(s: &mut S, n: i8) {
    let (p, a, b) = (gp(s, n), gp(s, n), gp(s, n));
    let l = line_f(a, b);
    let pp = Point(cf(p));
    let r = l.closest_point(&pp);
    if a == b {
        assert!(r == Closest::Indeterminate, "zero-length line must be Indeterminate");
        return;
    }
    let (num, den) = pt_seg_d2(p, a, b);
    match r {
        Closest::Intersection(c) => {
            assert!(on_segment(p, a, b), "Intersection reported for a point that is not on the line");
            assert!(d2_close(c, p, 0, 1), "Intersection payload is not the query point");
        }
        Closest::SinglePoint(c) => {
            assert!(!on_segment(p, a, b), "SinglePoint reported although the point is on the line");
            assert!(on_seg_approx(c, a, b), "closest point is not on the line");
            assert!(d2_close(c, p, num, den), "closest point is not at the minimum distance");
        }
        Closest::Indeterminate => assert!(false, "Indeterminate for a line with length"),
    }
    vcover!(on_segment(p, a, b) && p != a && p != b, "query strictly inside the segment");
    vcover!(den > 1 && num > 0, "projection falls inside the segment");
    vcover!(den == 1 && num > 0, "projection clamps to an end point");
}

pub fn closest_point_point<S: Src>(s: &mut S) {
    let (p, a) = (gp(s, 8), gp(s, 8));
    let r = Point(cf(a)).closest_point(&Point(cf(p)));
    if p == a {
        assert!(r == Closest::Intersection(Point(cf(a))), "Point.closest_point of itself");
    } else {
        assert!(r == Closest::SinglePoint(Point(cf(a))), "Point.closest_point must be the point");
    }
    let mp = MultiPoint(vec![Point(cf(a)), Point(cf((a.0 + 1, a.1)))]);
    let r2 = mp.closest_point(&Point(cf(p)));
    let d1 = (p.0 - a.0) * (p.0 - a.0) + (p.1 - a.1) * (p.1 - a.1);
    let d2 = (p.0 - a.0 - 1) * (p.0 - a.0 - 1) + (p.1 - a.1) * (p.1 - a.1);
    match r2 {
        Closest::Intersection(c) => assert!((d1 == 0 || d2 == 0) && d2_close(c, p, 0, 1), "MultiPoint Intersection"),
        Closest::SinglePoint(c) => assert!(d1 != 0 && d2 != 0 && d2_close(c, p, d1.min(d2), 1), "MultiPoint closest point is not the nearer member"),
        Closest::Indeterminate => assert!(false, "Indeterminate for a non-empty MultiPoint"),
    }
    core::mem::forget(mp);
}

/// concrete triangle, symbolic query
pub fn closest_triangle<S: Src>(s: &mut S, n: i8) {
    let (a, b, c): (P, P, P) = ((-2, -2), (2, -2), (-2, 2));
    let p = gp(s, n);
    let t = Triangle(cf(a), cf(b), cf(c));
    let r = t.closest_point(&Point(cf(p)));
    let pos = tri_pos(p, a, b, c);
    let cands = [pt_seg_d2(p, a, b), pt_seg_d2(p, b, c), pt_seg_d2(p, c, a)];
    let mut best = cands[0];
    let mut i = 1;
    while i < 3 {
        if cands[i].0 * best.1 < best.0 * cands[i].1 {
            best = cands[i];
        }
        i += 1;
    }
    match r {
        Closest::Intersection(q) => {
            assert!(pos != Pos::Exterior, "Intersection reported for a point outside the triangle");
            assert!(d2_close(q, p, 0, 1), "Intersection payload is not the query point");
        }
        Closest::SinglePoint(q) => {
            assert!(pos == Pos::Exterior, "SinglePoint reported for a point inside or on the triangle");
            assert!(d2_close(q, p, best.0, best.1), "closest point is not at the minimum distance");
            assert!(on_seg_approx(q, a, b) || on_seg_approx(q, b, c) || on_seg_approx(q, c, a), "closest point is not on the triangle");
        }
        Closest::Indeterminate => assert!(false, "Indeterminate for a valid triangle"),
    }
    vcover!(pos == Pos::Interior, "query strictly inside");
    vcover!(pos == Pos::Exterior && best.1 > 1, "closest approach in the interior of the hypotenuse");
}

/// `repeated`: exactly one of the two segments has zero length (a repeated vertex, which a valid
/// line string may contain); otherwise both segments have length
pub fn closest_linestring<S: Src>(s: &mut S, n: i8, repeated: bool) {
    let (a, b, c, p) = (gp(s, n), gp(s, n), gp(s, n), gp(s, n));
    if repeated {
        vassume!((a == b) != (b == c));
    } else {
        vassume!(a != b && b != c);
    }
    let g = ls_f(&[a, b, c]);
    let r = g.closest_point(&Point(cf(p)));
    let on = on_segment(p, a, b) || on_segment(p, b, c);
    let (c1, c2) = (pt_seg_d2(p, a, b), pt_seg_d2(p, b, c));
    let best = if c2.0 * c1.1 < c1.0 * c2.1 { c2 } else { c1 };
    match r {
        Closest::Intersection(q) => assert!(on && d2_close(q, p, 0, 1), "LineString Intersection"),
        Closest::SinglePoint(q) => {
            assert!(!on, "SinglePoint although the point is on the line string");
            assert!(d2_close(q, p, best.0, best.1), "closest point is not at the minimum distance");
        }
        Closest::Indeterminate => assert!(false, "Indeterminate for a line string with length"),
    }
    if repeated {
        vcover!(a == b && !on, "zero-length first segment, query off the line string");
    } else {
        vcover!(on_segment(p, b, c) && !on_segment(p, a, b), "query on the second segment only");
    }
    core::mem::forget(g);
}

pub fn interior_points<S: Src>(s: &mut S, n: i8) {
    let (a, b, c) = (gp(s, n), gp(s, n), gp(s, n));
    assert!(Point(cf(a)).interior_point() == Point(cf(a)), "Point interior_point");
    let l = line_f(a, b);
    let ip = l.interior_point();
    assert!(ip == Point(cf(a)) || ip == Point(cf(b)) || (ip.x() * 2.0 == (a.0 + b.0) as f32 && ip.y() * 2.0 == (a.1 + b.1) as f32), "Line interior_point is not on the line");
    // LineString of three coords: a vertex of the line string
    let g = ls_f(&[a, b, c]);
    let ig = g.interior_point();
    assert!(ig.is_some(), "interior_point of a non-empty LineString is None");
    let ig = ig.unwrap();
    assert!(ig == Point(cf(a)) || ig == Point(cf(b)) || ig == Point(cf(c)), "LineString interior_point is not one of its vertices");
    let e: LineString<f32> = LineString::new(vec![]);
    assert!(e.interior_point().is_none(), "interior_point of an empty LineString is not None");
    // valid Rect: strictly inside
    if a.0 != b.0 && a.1 != b.1 {
        let r = Rect::new(cf(a), cf(b));
        let q = r.interior_point();
        let (mn, mx) = (r.min(), r.max());
        assert!(q.x() > mn.x && q.x() < mx.x && q.y() > mn.y && q.y() < mx.y, "Rect interior_point is not strictly inside");
    }
    let mp = MultiPoint(vec![Point(cf(a)), Point(cf(b))]);
    let im = mp.interior_point();
    assert!(im == Some(Point(cf(a))) || im == Some(Point(cf(b))), "MultiPoint interior_point is not a member");
    let em: MultiPoint<f32> = MultiPoint(vec![]);
    assert!(em.interior_point().is_none(), "interior_point of an empty MultiPoint is not None");
    core::mem::forget(g);
    core::mem::forget(mp);
}

harnesses! {
    #[kani::stub(robust::orient2d, crate::stubs::orient2d_small)] #[kani::stub(f32::hypot, crate::stubs::hypot_f32)] fn c12_closest_line_g2(s) { closest_line(s, 2) }
    #[kani::unwind(5)] #[kani::stub(f32::hypot, crate::stubs::hypot_f32)] fn c12_closest_point_point(s) { closest_point_point(s) }
    #[kani::unwind(7)] #[kani::stub(robust::orient2d, crate::stubs::orient2d_small)] #[kani::stub(f32::hypot, crate::stubs::hypot_f32)] fn c12_closest_triangle_g3(s) { closest_triangle(s, 3) }
    #[kani::unwind(6)] #[kani::stub(robust::orient2d, crate::stubs::orient2d_small)] #[kani::stub(f32::hypot, crate::stubs::hypot_f32)] fn c12_closest_linestring_g1(s) { closest_linestring(s, 1, false) }
    #[kani::unwind(6)] #[kani::stub(robust::orient2d, crate::stubs::orient2d_small)] #[kani::stub(f32::hypot, crate::stubs::hypot_f32)] fn c12_closest_linestring_repeated_g1(s) { closest_linestring(s, 1, true) }
    #[kani::unwind(6)] #[kani::stub(robust::orient2d, crate::stubs::orient2d_small)] #[kani::stub(f32::hypot, crate::stubs::hypot_f32)] fn c12_interior_points_g2(s) { interior_points(s, 2) }
    #[kani::stub(f32::hypot, crate::stubs::hypot_f32)] fn c12_sanity_must_fail(s) {
        closest_point_point(s);
        assert!(false, "sanity twin reached its end");
    }
}
