//! Predicates naming the input classes of the findings listed in /verif/KNOWN_FINDINGS.txt.
//! A harness with a listed finding exists twice: the main form assumes `!class(input)`, the
//! confirming form (`..._kf_<class>`) assumes `class(input)` and is expected to fail while the
//! finding is listed.  Together they cover the whole bound, so nothing is hidden.

/// C02/C01: the query coordinate is an end point of an even, non-zero number of members of a
/// MultiLineString (`ends` = number of member end points equal to the query).
#[inline]
pub fn mls_query_at_evenly_shared_endpoint(ends: u8) -> bool {
    ends > 0 && ends % 2 == 0
}
