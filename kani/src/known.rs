//! Predicates naming the input classes of known findings (see /verif/KNOWN_FINDINGS.txt).
