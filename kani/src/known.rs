//! Predicates naming the input classes of the findings listed in /verif/KNOWN_FINDINGS.txt.
//! A harness with a listed finding exists twice: the main form assumes `!class(input)`, the
//! confirming form (`..._kf_<class>`) assumes `class(input)` and is expected to fail while the
//! finding is listed.  Together they cover the whole bound, so nothing is hidden.

/// C02/C01: the query coordinate is an end point of an even, non-zero number of members of a
/// MultiLineString (`ends` = number of member end points equal to the query).
#[inline]
pub fn mls_query_at_evenly_shared_endpoint(ends: u8) -> bool {
    ends > 0 && ends % 2 == 0
}

/// C01: a MultiLineString with at least one member that is open on its own, yet every member end
/// point is shared by an even number of open members (the members chain into closed loops), so
/// that the mod-2 boundary is empty although no member is "closed".
#[inline]
pub fn mls_open_members_forming_closed_loops(any_member_open: bool, some_end_point_has_odd_multiplicity: bool) -> bool {
    any_member_open && !some_end_point_has_odd_multiplicity
}

/// C14: a closed 3-ring whose three vertices are distinct and collinear (zero area; the only
/// overlapping edges are adjacent ones, which the pairwise self-intersection test skips).
#[inline]
pub fn ring_all_vertices_collinear_and_distinct(a: crate::oracle::P, b: crate::oracle::P, c: crate::oracle::P) -> bool {
    a != b && b != c && c != a && crate::oracle::orient(a, b, c) == 0
}
