//! C19 — coordinate traversal, mapping and bounding boxes are mutually consistent.
//!
//! `T = i8` (no arithmetic in geo's code; the mapping function uses wrapping arithmetic).  Shapes
//! are concrete, coordinates symbolic.  For every shape the expected traversal is written out by
//! hand from the documented order and everything else is checked against it.
use crate::Src;
use core::cell::Cell;
use geo::bounding_rect::BoundingRect;
use geo::coords_iter::CoordsIter;
use geo::extremes::Extremes;
use geo::lines_iter::LinesIter;
use geo::map_coords::{MapCoords, MapCoordsInPlace};
use geo_types::{coord, Coord, Geometry, GeometryCollection, Line, LineString, MultiLineString, MultiPoint, MultiPolygon, Point, Polygon, Rect, Triangle};

pub type T = i8;
type C = Coord<T>;

fn any_c<S: Src>(s: &mut S) -> C {
    coord! { x: s.i8(), y: s.i8() }
}

/// coords_count / coords_iter / exterior_coords_iter against the hand-written sequences
fn check_traversal<G: CoordsIter<Scalar = T>>(g: &G, want: &[C], want_ext: &[C]) {
    assert!(g.coords_count() == want.len(), "coords_count differs from the number of coordinates");
    let mut it = g.coords_iter();
    let mut i = 0;
    while i < want.len() {
        let c = it.next();
        assert!(c.is_some(), "coords_iter ended early");
        assert!(c.unwrap() == want[i], "coords_iter yields a wrong coordinate / order");
        i += 1;
    }
    assert!(it.next().is_none(), "coords_iter yields more than coords_count coordinates");
    let mut it = g.exterior_coords_iter();
    let mut i = 0;
    while i < want_ext.len() {
        let c = it.next();
        assert!(c.is_some(), "exterior_coords_iter ended early");
        assert!(c.unwrap() == want_ext[i], "exterior_coords_iter yields a wrong coordinate / order");
        i += 1;
    }
    assert!(it.next().is_none(), "exterior_coords_iter yields too many coordinates");
}

fn fold_bounds(want: &[C]) -> Option<(C, C)> {
    if want.is_empty() {
        return None;
    }
    let (mut mn, mut mx) = (want[0], want[0]);
    let mut i = 1;
    while i < want.len() {
        let c = want[i];
        if c.x < mn.x {
            mn.x = c.x
        }
        if c.y < mn.y {
            mn.y = c.y
        }
        if c.x > mx.x {
            mx.x = c.x
        }
        if c.y > mx.y {
            mx.y = c.y
        }
        i += 1;
    }
    Some((mn, mx))
}

fn check_bounds(got: Option<Rect<T>>, want: &[C]) {
    match fold_bounds(want) {
        None => assert!(got.is_none(), "bounding_rect of a geometry without coordinates is not None"),
        Some((mn, mx)) => {
            assert!(got.is_some(), "bounding_rect is None although there are coordinates");
            let r = got.unwrap();
            assert!(r.min() == mn && r.max() == mx, "bounding_rect is not the component-wise min/max of the traversal");
        }
    }
}

fn check_extremes<'a, G: Extremes<'a, T>>(g: &'a G, want_ext: &[C]) {
    let e = g.extremes();
    match fold_bounds(want_ext) {
        None => assert!(e.is_none(), "extremes of an empty geometry is not None"),
        Some((mn, mx)) => {
            assert!(e.is_some(), "extremes is None although there are coordinates");
            let o = e.unwrap();
            assert!(o.x_min.coord.x == mn.x && o.y_min.coord.y == mn.y && o.x_max.coord.x == mx.x && o.y_max.coord.y == mx.y, "extremes does not attain the bounds");
            let n = want_ext.len();
            assert!(o.x_min.index < n && o.y_min.index < n && o.x_max.index < n && o.y_max.index < n, "extremes index out of range");
            assert!(want_ext[o.x_min.index] == o.x_min.coord && want_ext[o.y_min.index] == o.y_min.coord, "extremes index does not name the reported coordinate (min)");
            assert!(want_ext[o.x_max.index] == o.x_max.coord && want_ext[o.y_max.index] == o.y_max.coord, "extremes index does not name the reported coordinate (max)");
        }
    }
}

fn check_lines<'a, G: LinesIter<'a, Scalar = T>>(g: &'a G, want: &[(C, C)]) {
    let mut it = g.lines_iter();
    let mut i = 0;
    while i < want.len() {
        let l = it.next();
        assert!(l.is_some(), "lines_iter ended early");
        let l = l.unwrap();
        assert!(l.start == want[i].0 && l.end == want[i].1, "lines_iter yields a wrong segment / order");
        i += 1;
    }
    assert!(it.next().is_none(), "lines_iter yields too many segments");
}

/// the mapping function: axis swap + symbolic wrapping translation (injective)
#[derive(Clone, Copy)]
pub struct F {
    dx: T,
    dy: T,
}
impl F {
    fn any<S: Src>(s: &mut S) -> F {
        F { dx: s.i8(), dy: s.i8() }
    }
    #[inline]
    fn ap(&self, c: C) -> C {
        coord! { x: c.y.wrapping_add(self.dx), y: c.x.wrapping_sub(self.dy) }
    }
}

/// One clause per call (`$mode`), because each of them allocates a new geometry and CBMC's cost is
/// dominated by the heap traffic:  0 = map_coords gives f∘traversal;  1 = map_coords_in_place agrees
/// with map_coords;  2 = try_map_coords(Ok∘f) agrees with map_coords;  3 = try_map_coords failing
/// at a symbolic position k returns the error and calls f on no coordinate after k;  9 = all.
macro_rules! check_map {
    ($g:expr, $want:expr, $s:expr) => { check_map!($g, $want, $s, 9u8) };
    ($g:expr, $want:expr, $s:expr, $mode:expr) => {{
        let f = F::any($s);
        let n = $want.len();
        let mode: u8 = $mode;
        if mode == 0 || mode == 9 {
            let m = $g.map_coords(|c| f.ap(c));
            assert!(m.coords_count() == n, "map_coords changes the number of coordinates");
            {
                let mut it = m.coords_iter();
                let mut i = 0;
                while i < n {
                    assert!(it.next() == Some(f.ap($want[i])), "map_coords: traversal of the result is not f applied to the traversal");
                    i += 1;
                }
            }
            core::mem::forget(m);
        }
        if mode == 1 || mode == 9 {
            let mut g2 = $g.clone();
            g2.map_coords_in_place(|c| f.ap(c));
            assert!(g2.coords_count() == n, "map_coords_in_place changes the number of coordinates");
            {
                let mut it = g2.coords_iter();
                let mut i = 0;
                while i < n {
                    assert!(it.next() == Some(f.ap($want[i])), "map_coords_in_place: traversal of the result is not f applied to the traversal");
                    i += 1;
                }
            }
            core::mem::forget(g2);
        }
        if mode == 2 || mode == 9 {
            let t: Result<_, u8> = $g.try_map_coords(|c| Ok(f.ap(c)));
            assert!(t.is_ok(), "try_map_coords(Ok) returned an error");
            let t = t.unwrap();
            assert!(t.coords_count() == n, "try_map_coords(Ok) changes the number of coordinates");
            {
                let mut it = t.coords_iter();
                let mut i = 0;
                while i < n {
                    assert!(it.next() == Some(f.ap($want[i])), "try_map_coords(Ok): traversal of the result is not f applied to the traversal");
                    i += 1;
                }
            }
            core::mem::forget(t);
        }
        // failing at a symbolic position k
        if (mode == 3 || mode == 9) && n > 0 {
            let k = $s.u8() as usize;
            vassume!(k < n);
            let calls = Cell::new(0usize);
            let r: Result<_, u8> = $g.try_map_coords(|c| {
                let i = calls.get();
                calls.set(i + 1);
                if i == k {
                    Err(7u8)
                } else {
                    Ok(f.ap(c))
                }
            });
            assert!(r.is_err(), "try_map_coords swallowed the error");
            assert!(calls.get() == k + 1, "try_map_coords evaluated f after the failing coordinate (or skipped one before it)");
            core::mem::forget(r);
            vcover!(k + 1 == n, "f fails on the last coordinate");
            vcover!(k == 0, "f fails on the first coordinate");
        }
    }};
}

// ------------------------------------------------------------------------------- shapes

pub fn t_point<S: Src>(s: &mut S) {
    let a = any_c(s);
    let g = Point(a);
    check_traversal(&g, &[a], &[a]);
    check_bounds(Some(g.bounding_rect()), &[a]);
    check_extremes(&g, &[a]);
    check_map!(g, [a], s);
}

pub fn t_line<S: Src>(s: &mut S) {
    let (a, b) = (any_c(s), any_c(s));
    let g = Line::new(a, b);
    check_traversal(&g, &[a, b], &[a, b]);
    check_lines(&g, &[(a, b)]);
    check_bounds(Some(g.bounding_rect()), &[a, b]);
    check_extremes(&g, &[a, b]);
    check_map!(g, [a, b], s);
    vcover!(a.x > b.x && a.y < b.y, "end points in mixed order");
}

pub fn t_triangle<S: Src>(s: &mut S) {
    let (a, b, c) = (any_c(s), any_c(s), any_c(s));
    let g = Triangle(a, b, c);
    check_traversal(&g, &[a, b, c], &[a, b, c]);
    check_lines(&g, &[(a, b), (b, c), (c, a)]);
    check_bounds(Some(g.bounding_rect()), &[a, b, c]);
    check_extremes(&g, &[a, b, c]);
}

/// Triangle mapping goes through Triangle::new, which may reverse the vertex order (non-robust
/// cross product: coordinates kept within +-3 so that it cannot overflow i8)
pub fn t_triangle_map<S: Src>(s: &mut S) {
    let small = |s: &mut S| -> C { coord! { x: s.grid(2) as i8, y: s.grid(2) as i8 } };
    let (a, b, c) = (small(s), small(s), small(s));
    let f = F { dx: s.grid(1) as i8, dy: s.grid(1) as i8 };
    let g = Triangle(a, b, c);
    let m = g.map_coords(|c| f.ap(c));
    let (fa, fb, fc) = (f.ap(a), f.ap(b), f.ap(c));
    assert!(m.1 == fb && ((m.0 == fa && m.2 == fc) || (m.0 == fc && m.2 == fa)), "Triangle map_coords lost or moved a vertex");
    let mut g2 = g;
    g2.map_coords_in_place(|c| f.ap(c));
    assert!(g2 == m, "Triangle map_coords_in_place disagrees with map_coords");
    let t: Result<Triangle<T>, u8> = g.try_map_coords(|c| Ok(f.ap(c)));
    assert!(t.is_ok() && t.unwrap() == m, "Triangle try_map_coords(Ok) disagrees with map_coords");
}

pub fn t_rect<S: Src>(s: &mut S) {
    let (a, b) = (any_c(s), any_c(s));
    let g = Rect::new(a, b);
    let (mn, mx) = (g.min(), g.max());
    // documented (CCW) traversal of a Rect: (max.x,min.y),(max.x,max.y),(min.x,max.y),(min.x,min.y)
    let want = [coord! {x: mx.x, y: mn.y}, coord! {x: mx.x, y: mx.y}, coord! {x: mn.x, y: mx.y}, coord! {x: mn.x, y: mn.y}];
    check_traversal(&g, &want, &want);
    check_bounds(Some(g.bounding_rect()), &want);
    check_extremes(&g, &want);
    // Rect re-normalises: map_coords == Rect::new(f(min), f(max))
    let f = F::any(s);
    let m = g.map_coords(|c| f.ap(c));
    assert!(m == Rect::new(f.ap(mn), f.ap(mx)), "Rect map_coords is not Rect::new(f(min), f(max))");
    let mut g2 = g;
    g2.map_coords_in_place(|c| f.ap(c));
    assert!(g2 == m, "Rect map_coords_in_place disagrees with map_coords");
    let mut n = 0;
    let mut it = g.lines_iter();
    while it.next().is_some() {
        n += 1;
    }
    assert!(n == 4, "Rect lines_iter must yield 4 segments");
}

pub fn t_linestring<S: Src>(s: &mut S, n: usize, mode: u8) {
    let (a, b, c) = (any_c(s), any_c(s), any_c(s));
    let all = [a, b, c];
    let want = &all[..n];
    let g = LineString::new(want.to_vec());
    if mode == 8 {
        check_traversal(&g, want, want);
        let segs = [(a, b), (b, c)];
        check_lines(&g, &segs[..n.saturating_sub(1)]);
        check_bounds(g.bounding_rect(), want);
        check_extremes(&g, want);
    } else {
        match n {
            0 => check_map!(g, [a; 0], s, mode),
            1 => check_map!(g, [a], s, mode),
            _ => check_map!(g, [a, b, c], s, mode),
        }
    }
    core::mem::forget(g);
}

pub fn t_polygon<S: Src>(s: &mut S, holes: usize, mode: u8) {
    let (a, b, c) = (any_c(s), any_c(s), any_c(s));
    let (d, e, f_) = (any_c(s), any_c(s), any_c(s));
    let (h, i_, j) = (any_c(s), any_c(s), any_c(s));
    // rings closed by construction (Polygon::new has nothing to push)
    let hs = match holes {
        0 => vec![],
        1 => vec![LineString::new(vec![d, e, f_, d])],
        _ => vec![LineString::new(vec![d, e, f_, d]), LineString::new(vec![h, i_, j, h])],
    };
    let g = Polygon::new(LineString::new(vec![a, b, c, a]), hs);
    let all = [a, b, c, a, d, e, f_, d, h, i_, j, h];
    let want = &all[..4 + 4 * holes];
    if mode == 8 {
        check_traversal(&g, want, &all[..4]);
        let segs = [(a, b), (b, c), (c, a), (d, e), (e, f_), (f_, d), (h, i_), (i_, j), (j, h)];
        check_lines(&g, &segs[..3 + 3 * holes]);
        // the bounding box of a polygon is that of its exterior ring
        check_bounds(g.bounding_rect(), &all[..4]);
        check_extremes(&g, &all[..4]);
    } else {
        match holes {
            0 => check_map!(g, [a, b, c, a], s, mode),
            1 => check_map!(g, [a, b, c, a, d, e, f_, d], s, mode),
            _ => check_map!(g, [a, b, c, a, d, e, f_, d, h, i_, j, h], s, mode),
        }
    }
    core::mem::forget(g);
}

pub fn t_multipoint<S: Src>(s: &mut S, n: usize) {
    let (a, b) = (any_c(s), any_c(s));
    let all = [a, b];
    let want = &all[..n];
    let mut v = Vec::with_capacity(n);
    for c in want {
        v.push(Point(*c));
    }
    let g = MultiPoint(v);
    check_traversal(&g, want, want);
    check_bounds(g.bounding_rect(), want);
    check_extremes(&g, want);
    if n == 0 {
        check_map!(g, [a; 0], s);
    } else {
        check_map!(g, [a, b], s);
    }
    core::mem::forget(g);
}

/// members: 2 coords, EMPTY, 3 coords
pub fn t_multilinestring<S: Src>(s: &mut S) {
    let (a, b, c, d, e) = (any_c(s), any_c(s), any_c(s), any_c(s), any_c(s));
    let g = MultiLineString(vec![LineString::new(vec![a, b]), LineString::new(vec![]), LineString::new(vec![c, d, e])]);
    let want = [a, b, c, d, e];
    check_traversal(&g, &want, &want);
    check_lines(&g, &[(a, b), (c, d), (d, e)]);
    check_bounds(g.bounding_rect(), &want);
    check_extremes(&g, &want);
    check_map!(g, [a, b, c, d, e], s);
    core::mem::forget(g);
}

/// members: triangle polygon; EMPTY polygon; triangle polygon with a triangular hole
pub fn t_multipolygon<S: Src>(s: &mut S) {
    let (a, b, c) = (any_c(s), any_c(s), any_c(s));
    let (d, e, f_) = (any_c(s), any_c(s), any_c(s));
    let (h, i_, j) = (any_c(s), any_c(s), any_c(s));
    let p1 = Polygon::new(LineString::new(vec![a, b, c, a]), vec![]);
    let p0 = Polygon::new(LineString::new(vec![]), vec![]);
    let p2 = Polygon::new(LineString::new(vec![d, e, f_, d]), vec![LineString::new(vec![h, i_, j, h])]);
    let g = MultiPolygon(vec![p1, p0, p2]);
    let want = [a, b, c, a, d, e, f_, d, h, i_, j, h];
    let ext = [a, b, c, a, d, e, f_, d];
    check_traversal(&g, &want, &ext);
    check_lines(&g, &[(a, b), (b, c), (c, a), (d, e), (e, f_), (f_, d), (h, i_), (i_, j), (j, h)]);
    check_bounds(g.bounding_rect(), &ext);
    check_extremes(&g, &ext);
    core::mem::forget(g);
}

pub fn t_multipolygon_map<S: Src>(s: &mut S) {
    let (a, b, c) = (any_c(s), any_c(s), any_c(s));
    let (d, e, f_) = (any_c(s), any_c(s), any_c(s));
    let p1 = Polygon::new(LineString::new(vec![a, b, c, a]), vec![]);
    let p2 = Polygon::new(LineString::new(vec![d, e, f_, d]), vec![]);
    let g = MultiPolygon(vec![p1, p2]);
    check_map!(g, [a, b, c, a, d, e, f_, d], s);
    core::mem::forget(g);
}

/// Geometry enum wrappers give the same traversal as the wrapped value
pub fn t_geometry<S: Src>(s: &mut S, which: u8) {
    let (a, b, c) = (any_c(s), any_c(s), any_c(s));
    match which {
        0 => {
            let g = Geometry::Point(Point(a));
            check_traversal(&g, &[a], &[a]);
            check_bounds(g.bounding_rect(), &[a]);
        }
        1 => {
            let g = Geometry::Line(Line::new(a, b));
            check_traversal(&g, &[a, b], &[a, b]);
            check_bounds(g.bounding_rect(), &[a, b]);
        }
        2 => {
            let g = Geometry::LineString(LineString::new(vec![a, b, c]));
            check_traversal(&g, &[a, b, c], &[a, b, c]);
            check_bounds(g.bounding_rect(), &[a, b, c]);
            core::mem::forget(g);
        }
        3 => {
            let g = Geometry::Polygon(Polygon::new(LineString::new(vec![a, b, c, a]), vec![LineString::new(vec![c, b, a, c])]));
            check_traversal(&g, &[a, b, c, a, c, b, a, c], &[a, b, c, a]);
            check_bounds(g.bounding_rect(), &[a, b, c, a]);
            core::mem::forget(g);
        }
        _ => {
            let g = Geometry::Triangle(Triangle(a, b, c));
            check_traversal(&g, &[a, b, c], &[a, b, c]);
            check_bounds(g.bounding_rect(), &[a, b, c]);
        }
    }
}

/// collection of depth 1: [Point, EMPTY LineString, Line]
pub fn t_collection<S: Src>(s: &mut S) {
    let (a, b, c) = (any_c(s), any_c(s), any_c(s));
    let g = GeometryCollection(vec![Geometry::Point(Point(a)), Geometry::LineString(LineString::new(vec![])), Geometry::Line(Line::new(b, c))]);
    check_traversal(&g, &[a, b, c], &[a, b, c]);
    check_bounds(g.bounding_rect(), &[a, b, c]);
    core::mem::forget(g);
}

harnesses! {
    fn c19_point(s) { t_point(s) }
    #[kani::unwind(4)] fn c19_line(s) { t_line(s) }
    #[kani::unwind(5)] fn c19_triangle(s) { t_triangle(s) }
    #[kani::unwind(6)] fn c19_rect(s) { t_rect(s) }
    #[kani::unwind(5)] fn c19_linestring_0(s) { t_linestring(s, 0, 8) }
    #[kani::unwind(5)] fn c19_linestring_0_map(s) { t_linestring(s, 0, 9) }
    #[kani::unwind(5)] fn c19_linestring_1(s) { t_linestring(s, 1, 8) }
    #[kani::unwind(5)] fn c19_linestring_1_map(s) { t_linestring(s, 1, 9) }
    #[kani::unwind(5)] fn c19_linestring_3(s) { t_linestring(s, 3, 8) }
    #[kani::unwind(5)] fn c19_linestring_3_map0(s) { t_linestring(s, 3, 0) }
    #[kani::unwind(5)] fn c19_linestring_3_map1(s) { t_linestring(s, 3, 1) }
    #[kani::unwind(5)] fn c19_linestring_3_map2(s) { t_linestring(s, 3, 2) }
    #[kani::unwind(5)] fn c19_linestring_3_map3(s) { t_linestring(s, 3, 3) }
    #[kani::unwind(5)] fn c19_triangle_map(s) { t_triangle_map(s) }
    #[kani::unwind(6)] fn c19_polygon_h0(s) { t_polygon(s, 0, 8) }
    #[kani::unwind(10)] fn c19_polygon_h1(s) { t_polygon(s, 1, 8) }
    #[kani::unwind(14)] fn c19_polygon_h2(s) { t_polygon(s, 2, 8) }
    #[kani::unwind(6)] fn c19_polygon_h0_map0(s) { t_polygon(s, 0, 0) }
    #[kani::unwind(6)] fn c19_polygon_h0_map1(s) { t_polygon(s, 0, 1) }
    #[kani::unwind(6)] fn c19_polygon_h0_map3(s) { t_polygon(s, 0, 3) }
    #[kani::unwind(10)] fn c19_polygon_h1_map0(s) { t_polygon(s, 1, 0) }
    #[kani::unwind(10)] fn c19_polygon_h1_map3(s) { t_polygon(s, 1, 3) }
    #[kani::unwind(4)] fn c19_multipoint_0(s) { t_multipoint(s, 0) }
    #[kani::unwind(4)] fn c19_multipoint_2(s) { t_multipoint(s, 2) }
    #[kani::unwind(7)] fn c19_multilinestring(s) { t_multilinestring(s) }
    #[kani::unwind(14)] fn c19_multipolygon(s) { t_multipolygon(s) }
    #[kani::unwind(10)] fn c19_multipolygon_map(s) { t_multipolygon_map(s) }
    #[kani::unwind(5)] fn c19_geometry_point(s) { t_geometry(s, 0) }
    #[kani::unwind(5)] fn c19_geometry_line(s) { t_geometry(s, 1) }
    #[kani::unwind(5)] fn c19_geometry_linestring(s) { t_geometry(s, 2) }
    #[kani::unwind(10)] fn c19_geometry_polygon(s) { t_geometry(s, 3) }
    #[kani::unwind(5)] fn c19_geometry_triangle(s) { t_geometry(s, 4) }
    #[kani::unwind(5)] fn c19_collection(s) { t_collection(s) }
    #[kani::unwind(8)] fn c19_probe_poly_map(s) { probe::poly_map_only(s) }
    #[kani::unwind(8)] fn c19_probe_poly_new(s) { probe::poly_new_only(s) }
    #[kani::unwind(5)] fn c19_sanity_must_fail(s) {
        t_linestring(s, 3, 8);
        assert!(false, "sanity twin reached its end");
    }
}

// ---- probes (not registered in any family): cost structure of polygon operations
pub mod probe {
    use super::*;
    pub fn poly_map_only<S: Src>(s: &mut S) {
        let (a, b, c) = (any_c(s), any_c(s), any_c(s));
        let (d, e, f_) = (any_c(s), any_c(s), any_c(s));
        let g = Polygon::new(LineString::new(vec![a, b, c, a]), vec![LineString::new(vec![d, e, f_, d])]);
        let m = g.map_coords(|c| coord! {x: c.y, y: c.x});
        assert!(m.exterior().0[1] == coord! {x: b.y, y: b.x}, "probe");
        assert!(m.interiors()[0].0[2] == coord! {x: f_.y, y: f_.x}, "probe");
        core::mem::forget(m);
        core::mem::forget(g);
    }
    pub fn poly_new_only<S: Src>(s: &mut S) {
        let (a, b, c) = (any_c(s), any_c(s), any_c(s));
        let (d, e, f_) = (any_c(s), any_c(s), any_c(s));
        let g = Polygon::new(LineString::new(vec![a, b, c, a]), vec![LineString::new(vec![d, e, f_, d])]);
        assert!(g.interiors()[0].0[2] == f_, "probe");
        core::mem::forget(g);
    }
}
