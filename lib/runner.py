"""Runner for the solver-based checks (see /verif/DESIGN.md section 2, 'Runner')."""
import argparse, fnmatch, json, os, re, resource, signal, subprocess, sys, threading, time, tomllib
from concurrent.futures import ThreadPoolExecutor, as_completed

VERIF = os.path.dirname(os.path.dirname(os.path.abspath(__file__)))
REPO = os.environ.get('VERIF_REPO', '/repo')
KANI_DIR = os.environ.get('VERIF_KANI_DIR', os.path.join(VERIF, 'kani'))
CACHE = os.path.join(VERIF, '.cache')
KTARGET = os.environ.get('VERIF_KTARGET', os.path.join(CACHE, 'kani-target'))
NTARGET = os.environ.get('VERIF_NATIVE_TARGET', os.path.join(CACHE, 'native-target'))
KNOWN_FILE = os.path.join(VERIF, 'KNOWN_FINDINGS.txt')

ENV = dict(os.environ, CARGO_NET_OFFLINE='true', CARGO_TERM_COLOR='never')

QUICK_CAP = 900
THOROUGH_CAP = 9000   # 2.5x the slowest admitted family (measured <= 2300 s here): the reference machine is ~2.5x slower


def log(*a):
    print(*a, flush=True)


# --------------------------------------------------------------------------- configuration

def load_families():
    with open(os.path.join(KANI_DIR, 'FAMILIES.toml'), 'rb') as f:
        return tomllib.load(f)


def discover_harnesses():
    """harness names defined in the crate, from the source (fn cNN_xxx(s) inside harnesses!{})"""
    out = {}
    src = os.path.join(KANI_DIR, 'src')
    for fn in sorted(os.listdir(src)):
        if not re.fullmatch(r'c\d\d\.rs', fn):
            continue
        txt = open(os.path.join(src, fn)).read()
        for m in re.finditer(r'\bfn (c\d\d_\w+)\(s\)', txt):
            out[m.group(1)] = fn[:-3]
    return out


def load_known():
    """finding:/fixed: lines. finding: property=<id> harness=<name> [assert="<desc>"] :: text"""
    findings, fixed = [], []
    if os.path.exists(KNOWN_FILE):
        for line in open(KNOWN_FILE):
            line = line.strip()
            if line.startswith('finding:'):
                head, _, text = line[len('finding:'):].partition('::')
                kv = dict(re.findall(r'(\w+)=("[^"]*"|\S+)', head))
                kv = {k: v.strip('"') for k, v in kv.items()}
                kv['text'] = text.strip()
                findings.append(kv)
            elif line.startswith('fixed:'):
                fixed.append(line)
    return findings, fixed


# --------------------------------------------------------------------------- running kani

def _limits(mem_gb):
    def f():
        os.setsid()
        lim = int(mem_gb * (1 << 30))
        resource.setrlimit(resource.RLIMIT_AS, (lim, lim))
    return f


def run_proc(cmd, cwd, logpath, cap_s, mem_gb=None):
    """run in its own process group under a wall cap; returns (rc|None on timeout, wall)"""
    t0 = time.time()
    with open(logpath, 'w') as lf:
        p = subprocess.Popen(cmd, cwd=cwd, stdout=lf, stderr=subprocess.STDOUT, env=ENV,
                             preexec_fn=_limits(mem_gb) if mem_gb else os.setsid)
        try:
            rc = p.wait(timeout=cap_s)
        except subprocess.TimeoutExpired:
            rc = None
            try:
                os.killpg(p.pid, signal.SIGKILL)
            except ProcessLookupError:
                pass
            p.wait()
        else:
            # make sure no stray cbmc of this group survives
            try:
                os.killpg(p.pid, signal.SIGKILL)
            except (ProcessLookupError, PermissionError):
                pass
    return rc, time.time() - t0


def kani_cmd(harness, fam):
    cmd = ['cargo', 'kani', '--lib', '--target-dir', KTARGET, '-Z', 'stubbing',
           '-Z', 'concrete-playback', '--concrete-playback=print',
           '--harness', '::%s::check' % harness]
    if fam.get('float'):
        cmd.append('--no-overflow-checks')
    cmd += fam.get('kani_args', [])
    return cmd


CHECK_RE = re.compile(r'^Check \d+: (.+)\n\t - Status: (\w+)\n\t - Description: "(.*)"\n\t - Location: (.*)$', re.M)
PLAY_RE = re.compile(r'/// Check for `(\w+)`: "(.*)"\n(?:.*\n)*?fn kani_concrete_playback_\w+\(\) \{\n\s*let concrete_vals: Vec<Vec<u8>> = vec!\[\n((?:.*\n)*?)\s*\];', re.M)

INCONCLUSIVE_PAT = re.compile(r'unwinding assertion|not currently supported|unsupported|recursion unwinding')


def parse_kani_log(text):
    r = {'checks': [], 'verdict': None, 'solver_s': None, 'playback': [], 'total': 0, 'failed': 0}
    for m in CHECK_RE.finditer(text):
        name, status, desc, loc = m.groups()
        r['checks'].append({'name': name, 'status': status, 'desc': desc.strip('"'), 'loc': loc})
    m = re.search(r'^VERIFICATION:- (\w+)(.*)$', text, re.M)
    if m:
        r['verdict'] = m.group(1)
        r['verdict_note'] = m.group(2).strip()
    m = re.search(r'^Verification Time: ([\d.]+)s', text, re.M)
    if m:
        r['solver_s'] = float(m.group(1))
    m = re.search(r'\*\* (\d+) of (\d+) failed', text)
    if m:
        r['failed'], r['total'] = int(m.group(1)), int(m.group(2))
    for m in PLAY_RE.finditer(text):
        kind, desc, body = m.groups()
        vals = []
        for vm in re.finditer(r'vec!\[([\d, ]*)\]', body):
            s = vm.group(1).strip()
            vals.append([int(x) for x in s.split(',') if x.strip()] if s else [])
        r['playback'].append({'kind': kind, 'desc': desc.strip('"'), 'vals': vals})
    return r


def classify(text, rc, fam):
    """-> dict(status=pass|cex|inconclusive|vacuous, reason, ...)"""
    p = parse_kani_log(text)
    expect = fam.get('expect', 'pass')
    res = {'parsed': p, 'status': 'inconclusive', 'reason': ''}
    if rc is None:
        res['reason'] = 'timeout (wall cap)'
        return res
    if re.search(r'error(\[E\d+\])?: |could not compile', text) and p['verdict'] is None:
        res['reason'] = 'build failure'
        return res
    if p['verdict'] is None or re.search(r'CBMC failed|Out of memory|out of memory', text):
        if re.search(r'out of memory|std::bad_alloc|Cannot allocate|memory exhausted', text, re.I):
            res['reason'] = 'solver ran out of memory'
        elif 'Invalid User Input' in text:
            res['reason'] = 'CBMC rejected its arguments (Invalid User Input)'
        else:
            res['reason'] = 'no verdict in the log (CBMC failed / killed; rc=%s)' % rc
        return res
    # cover witnesses, grouped by description.  SATISFIED in at least one instance = witnessed.
    # An instance that is UNSATISFIABLE (reachable but impossible) makes the harness vacuous; an
    # UNREACHABLE instance is dead code of a generic body for this concrete shape and is ignored,
    # which is safe because the harnesses! macro appends 'END: harness body ran to its end' to
    # every body: an over-strong assumption makes that one unsatisfied.
    covers, unsat_covers = {}, set()
    for c in p['checks']:
        if '.cover.' in c['name']:
            if c['status'] == 'SATISFIED':
                covers[c['desc']] = True
            elif c['status'] == 'UNSATISFIABLE':
                covers.setdefault(c['desc'], False)
                unsat_covers.add(c['desc'])
            elif c['desc'].startswith('END:'):
                covers.setdefault(c['desc'], False)
    res['covers'] = covers
    failures = [c for c in p['checks'] if c['status'] == 'FAILURE']
    undet = [c for c in p['checks'] if c['status'] == 'UNDETERMINED']
    if any(c['status'] == 'ERROR' for c in p['checks']):
        res['reason'] = 'solver error on %d checks (Status: ERROR = out of memory)' % sum(c['status'] == 'ERROR' for c in p['checks'])
        return res
    incon = [c for c in failures if INCONCLUSIVE_PAT.search(c['desc']) or 'unsupported_construct' in c['name'] or '.unwind.' in c['name']]
    real = [c for c in failures if c not in incon]
    if expect == 'panic' and p['verdict'] == 'SUCCESSFUL':
        real = []  # should_panic harness: the panics themselves are the expected outcome
    res['failures'] = real
    mustnot = [d for d, sat in covers.items() if d.startswith('MUSTNOT') and sat]
    if incon:
        res['reason'] = 'inconclusive check failed: %s' % incon[0]['desc'][:120]
        return res
    if expect == 'fail':  # sanity twin: must fail, and only at its final assertion
        if p['verdict'] == 'FAILED' and real and all('sanity twin' in c['desc'] for c in real):
            res['status'] = 'pass'
            res['reason'] = 'sanity twin failed at its final assertion, as required'
        elif p['verdict'] == 'SUCCESSFUL':
            res['status'] = 'vacuous'
            res['reason'] = 'sanity twin with a false final assertion was reported SUCCESSFUL: harness is vacuous'
        else:
            res['status'] = 'cex'
            res['failures'] = [c for c in real if 'sanity twin' not in c['desc']]
            res['reason'] = 'sanity twin failed before its final assertion'
        return res
    if mustnot:
        res['status'] = 'cex'
        res['reason'] = 'forbidden state reachable: %s' % mustnot[0]
        res['mustnot'] = mustnot
        return res
    if real:
        res['status'] = 'cex'
        res['reason'] = 'failed check: %s' % real[0]['desc'][:160]
        return res
    if undet:
        res['reason'] = 'undetermined checks'
        return res
    if p['verdict'] == 'SUCCESSFUL':
        vac = [d for d, sat in covers.items() if not sat and not d.startswith('MUSTNOT')
               and not (expect == 'panic' and d.startswith('END:'))]
        if vac:
            res['status'] = 'vacuous'
            res['reason'] = 'cover witness not satisfiable: %s' % vac[0]
        else:
            res['status'] = 'pass'
        return res
    if p['verdict'] == 'FAILED' and 'encountered no panics' in p.get('verdict_note', ''):
        res['status'] = 'cex'
        res['reason'] = 'expected panic did not happen'
        return res
    res['reason'] = 'verdict %s without a failed check' % p['verdict']
    return res


# --------------------------------------------------------------------------- native replay

_native_lock = threading.Lock()
_native_built = {}


def native_build(profile):
    with _native_lock:
        if profile in _native_built:
            return _native_built[profile]
        cmd = ['cargo', 'build', '--offline', '--bin', 'replay']
        if profile == 'release':
            cmd.append('--release')
        env = dict(ENV, CARGO_TARGET_DIR=NTARGET, RUSTFLAGS='--cfg georust_geo_verif')
        os.makedirs(CACHE, exist_ok=True)
        p = subprocess.run(cmd, cwd=KANI_DIR, env=env, stdout=subprocess.PIPE, stderr=subprocess.STDOUT, text=True)
        ok = p.returncode == 0
        if not ok:
            log('native %s build failed:\n%s' % (profile, p.stdout[-3000:]))
        _native_built[profile] = os.path.join(NTARGET, 'release' if profile == 'release' else 'debug', 'replay') if ok else None
        return _native_built[profile]


def hexvals(vals):
    return [''.join('%02x' % b for b in v) if v else '-' for v in vals]


def replay_native(harness, vals, profiles=('dev', 'release')):
    """-> list of dicts per profile: rc (0 completed, 1 assertion failed, 3 not replayable), out"""
    out = []
    for prof in profiles:
        exe = native_build(prof)
        if exe is None:
            out.append({'profile': prof, 'rc': 4, 'out': 'native build failed'})
            continue
        try:
            p = subprocess.run([exe, harness] + hexvals(vals), stdout=subprocess.PIPE, stderr=subprocess.PIPE, text=True, timeout=120)
            line = [l for l in p.stdout.splitlines() if l.startswith('REPLAY')]
            out.append({'profile': prof, 'rc': p.returncode, 'out': (line[-1] if line else p.stdout[-300:]), 'stderr': p.stderr[-600:]})
        except subprocess.TimeoutExpired:
            out.append({'profile': prof, 'rc': 5, 'out': 'native replay timed out'})
    return out


def reproduces(rep, res):
    """does the native run show the violation?"""
    if res.get('mustnot'):
        return all(r['rc'] == 0 and any(m in r['out'] for m in res['mustnot']) for r in rep)
    if res['reason'].startswith('expected panic did not happen'):
        return all(r['rc'] == 0 for r in rep)
    return all(r['rc'] == 1 for r in rep)


# --------------------------------------------------------------------------- one harness

def run_harness(h, fam, tier, logdir):
    cap = int(os.environ.get('VERIF_CAP', '0')) or fam.get('cap_s') or (QUICK_CAP if tier == 'quick' else THOROUGH_CAP)   # VERIF_CAP: development override
    mem = fam.get('mem_gb', 10)
    logpath = os.path.join(logdir, h + '.log')
    rc, wall = run_proc(kani_cmd(h, fam), KANI_DIR, logpath, cap, mem)
    text = open(logpath, errors='replace').read()
    res = classify(text, rc, fam)
    res.update(harness=h, family=fam['id'], wall_s=round(wall, 1), log=logpath)
    p = res['parsed']
    if res['status'] == 'cex':
        # candidates: playback tests of failing assertions (or of MUSTNOT covers)
        if res.get('mustnot'):
            cands = [pb for pb in p['playback'] if pb['kind'] == 'cover' and pb['desc'] in res['mustnot']]
        else:
            cands = [pb for pb in p['playback'] if pb['kind'] != 'cover']
        res['replays'] = []
        res['reproduced'] = False
        for pb in cands:
            rep = replay_native(h, pb['vals'])
            ok = reproduces(rep, res)
            res['replays'].append({'desc': pb['desc'], 'vals': pb['vals'], 'native': rep, 'reproduced': ok})
            if ok:
                res['reproduced'] = True
                res['cex_vals'] = pb['vals']
                res['cex_desc'] = pb['desc']
                break
        if not cands:
            res['reason'] += ' (no concrete playback values in the log)'
    return res


# --------------------------------------------------------------------------- property level

def select(property_id, tier, seed, only=None):
    cfg = load_families()
    harnesses = discover_harnesses()
    fams = [f for f in cfg.get('family', []) if f['property'] == property_id]
    jobs, skipped = [], []
    claimed = set()
    for f in fams:
        names = sorted(h for h in harnesses if any(fnmatch.fnmatchcase(h, g) for g in f['harnesses']))
        names = [h for h in names if h not in claimed]
        claimed.update(names)
        if f.get('frames'):
            # seed-dependent variants: names end in _fr<k>; quick picks one per stem
            stems = {}
            for h in names:
                m = re.fullmatch(r'(.*)_fr(\d+)', h)
                stems.setdefault(m.group(1) if m else h, []).append(h)
            if tier == 'quick':
                names = [sorted(v)[seed % len(v)] for v in stems.values()]
        for h in names:
            if only and not fnmatch.fnmatchcase(h, only):
                continue
            if f['tier'] == 'never' and not only:
                continue
            if f['tier'] == 'thorough' and tier == 'quick':
                skipped.append(h)
                continue
            if os.environ.get('VERIF_THOROUGH_DELTA') and tier == 'thorough' and f['tier'] == 'quick' and not f.get('frames'):
                continue      # development aid: only what the thorough tier adds to the quick tier
            jobs.append((h, f))
    return cfg, fams, jobs, skipped


def main(argv):
    ap = argparse.ArgumentParser()
    ap.add_argument('property')
    ap.add_argument('--tier', default=os.environ.get('VERIF_TIER', 'quick'), choices=['quick', 'thorough'])
    ap.add_argument('--replay')
    ap.add_argument('--only')
    ap.add_argument('--jobs', type=int, default=int(os.environ.get('VERIF_JOBS', '16')))
    ap.add_argument('--no-evidence', action='store_true')
    a = ap.parse_args(argv)
    pid = a.property.upper()
    seed = int(os.environ.get('VERIF_SEED', '0') or 0)
    if a.replay:
        return do_replay(pid, a.replay)
    t0 = time.time()
    cfg, fams, jobs, skipped = select(pid, a.tier, seed, a.only)
    smt_jobs = smt_obligations(pid)
    if not jobs and not smt_jobs:
        log('no check is registered for %s (see MANIFEST.json not_applicable)' % pid)
        return 2
    logdir = os.path.join(CACHE, 'logs', pid, a.tier)
    os.makedirs(logdir, exist_ok=True)
    os.makedirs(os.path.join(VERIF, 'evidence'), exist_ok=True)
    results = []
    build_ok = True
    if jobs:
        # warm-up build of geo (from /repo's working tree) so parallel jobs only compile geo-kani
        wl = os.path.join(logdir, '_build.log')
        rc, w = run_proc(['cargo', 'kani', '--lib', '--target-dir', KTARGET, '-Z', 'stubbing', '--only-codegen',
                          '--harness', '::%s::check' % jobs[0][0]], KANI_DIR, wl, 1500)
        log('[build] cargo kani --only-codegen rc=%s %.0fs' % (rc, w))
        if rc != 0:
            build_ok = False
            log(open(wl, errors='replace').read()[-4000:])
    smt_results = []
    if build_ok:
        jobs.sort(key=lambda j: -(j[1].get('est_s', 60)))
        smt_future = None
        with ThreadPoolExecutor(max_workers=max(1, a.jobs)) as ex:
            if smt_jobs:
                smt_future = ex.submit(run_smt, pid, a.tier, seed, logdir)
            futs = [ex.submit(run_harness, h, f, a.tier, logdir) for h, f in jobs]
            for fu in as_completed(futs):
                r = fu.result()
                results.append(r)
                log('[%s] %-44s %-12s %6.0fs  %s' % (pid, r['harness'], r['status'], r['wall_s'], r['reason'][:110]))
            if smt_future:
                smt_results = smt_future.result()
                for r in smt_results:
                    log('[%s] smt:%-40s %-12s %6.1fs  %s' % (pid, r['name'], r['status'], r.get('solver_s', 0), r.get('reason', '')[:110]))
    return conclude(pid, a.tier, seed, cfg, fams, results, smt_results, skipped, build_ok, t0, a.no_evidence)


def conclude(pid, tier, seed, cfg, fams, results, smt_results, skipped, build_ok, t0, no_evidence):
    findings, fixed = load_known()
    violations, known_hits, incon = [], [], []
    rdir = os.path.join(VERIF, 'replay', pid)
    for r in results:
        if r['status'] == 'pass':
            continue
        if r['status'] == 'cex' and r.get('reproduced'):
            kf = [k for k in findings if k.get('property') == pid and fnmatch.fnmatchcase(r['harness'], k.get('harness', ''))
                  and ('assert' not in k or k['assert'] in r.get('cex_desc', ''))]
            os.makedirs(rdir, exist_ok=True)
            path = os.path.join(rdir, r['harness'] + '.json')
            json.dump({'property': pid, 'engine': 'kani', 'harness': r['harness'], 'vals': r['cex_vals'], 'failed': r.get('cex_desc'),
                       'native': r['replays'][-1]['native']}, open(path, 'w'), indent=1)
            if kf:
                known_hits.append((r, kf[0]))
            else:
                violations.append((r, path))
        else:
            incon.append(r)
    for r in smt_results:
        if r['status'] == 'pass':
            continue
        if r['status'] == 'cex' and r.get('reproduced'):
            os.makedirs(rdir, exist_ok=True)
            path = os.path.join(rdir, 'smt_' + r['name'] + '.json')
            json.dump({'property': pid, 'engine': 'mir2smt', 'obligation': r['name'], 'model': r.get('model'), 'native': r.get('native')}, open(path, 'w'), indent=1)
            violations.append((r, path))
        else:
            incon.append(r)
    # listed findings whose confirming harness passed
    for k in findings:
        if k.get('property') != pid:
            continue
        rr = [r for r in results if fnmatch.fnmatchcase(r['harness'], k.get('harness', ''))]
        if rr and rr[0]['status'] == 'pass':
            log('NOTE: listed finding no longer reproduces: property=%s harness=%s' % (pid, k['harness']))
    for r, k in known_hits:
        log('KNOWN-FINDING: property=%s %s [harness=%s input=%s]' % (pid, k['text'], r['harness'], r['cex_vals']))
    for r, path in violations:
        log('VIOLATION property=%s replay=%s' % (pid, path))
        log('   %s: %s' % (r.get('harness', r.get('name')), r.get('cex_desc') or r.get('reason')))
    for r in incon:
        log('INCONCLUSIVE %s: %s (%s)' % (r.get('harness', r.get('name')), r['status'], r['reason'][:200]))
    wall = time.time() - t0
    if not no_evidence:
        write_evidence(pid, tier, seed, fams, results, smt_results, skipped, violations, known_hits, incon, wall)
    if not build_ok:
        log('RESULT %s: inconclusive (build failed)' % pid)
        return 2
    if violations:
        log('RESULT %s: VIOLATION (%d)' % (pid, len(violations)))
        return 1
    if incon:
        log('RESULT %s: inconclusive (%d)' % (pid, len(incon)))
        return 2
    log('RESULT %s: held on everything explored (%d harnesses, %d smt obligations, %.0fs)' % (pid, len(results), len(smt_results), wall))
    return 0


def describe_vals(vals):
    out = []
    for v in vals:
        if len(v) == 1:
            out.append(v[0] - 256 if v[0] > 127 else v[0])
        else:
            out.append(int.from_bytes(bytes(v), 'little', signed=True))
    return out


def write_evidence(pid, tier, seed, fams, results, smt_results, skipped, violations, known_hits, incon, wall):
    famidx = {f['id']: f for f in fams}
    passed = [r for r in results if r['status'] == 'pass']
    nontrivial = [r for r in passed if r.get('covers') and all(v for d, v in r['covers'].items() if not d.startswith('MUSTNOT'))]
    queries = sum(r['parsed']['total'] for r in results) + sum(r.get('queries', 1) for r in smt_results)
    # a vacuity twin / should-panic harness that behaved as required has met its obligation: its
    # required failure is counted as discharged, not as an open check
    def done(r):
        exp = famidx.get(r.get('family'), {}).get('expect')
        return r['parsed']['total'] if exp in ('fail', 'panic') else r['parsed']['total'] - r['parsed']['failed']
    discharged = sum(done(r) for r in passed) + sum(r.get('queries', 1) for r in smt_results if r['status'] == 'pass')
    samples = []
    # concrete witnesses produced by the solver for the class covers (one per harness), the
    # informative class witnesses first, the END reachability witnesses last
    for want_end in (False, True):
        for r in results:
            if any(s['harness'] == r['harness'] for s in samples) or len(samples) >= 14:
                continue
            for pb in r['parsed']['playback']:
                if pb['kind'] == 'cover' and pb['desc'].startswith('END:') == want_end:
                    samples.append({'harness': r['harness'], 'witness_for': pb['desc'], 'symbolic_inputs_in_draw_order': describe_vals(pb['vals'])})
                    break
    for r in smt_results[:6]:
        samples.append({'obligation': r['name'], 'statement': r.get('statement', ''), 'status': r['status']})
    if not samples:
        samples = [{'harness': r['harness'], 'status': r['status']} for r in results[:5]]
    families = []
    for fid, f in famidx.items():
        rs = [r for r in results if r['family'] == fid]
        if not rs:
            continue
        families.append({
            'family': fid, 'tier': f['tier'],
            'functions_encoded': f.get('functions', []),
            'instantiation': f.get('instantiation', ''),
            'bound': f.get('bound', ''),
            'stubs': f.get('stubs', []),
            'default_checks_off': ['float-overflow (NaN/inf per operation)'] if f.get('float') else [],
            'kani_args': f.get('kani_args', []),
            'outside': f.get('outside', []),
            'harnesses': [{'name': r['harness'], 'status': r['status'], 'cbmc_properties': r['parsed']['total'],
                           'solver_s': r['parsed']['solver_s'], 'wall_s': r['wall_s'],
                           'covers': r.get('covers', {}), 'note': r['reason']} for r in rs],
        })
    # C13: the claim is carried by the unbounded SMT proofs; its Kani harnesses (commutation on a
    # grid) are bounded and listed as such in coverage.families
    level = 'proof' if (smt_results and (not results or pid in ('C13',))) else 'model_checking'
    ev = {
        'property_id': pid, 'tier': tier, 'seed': seed, 'level': level,
        'coverage': {
            'evaluations': max(queries, 1),
            'distinct_nontrivial': len(nontrivial) + sum(1 for r in smt_results if r['status'] == 'pass'),
            'rule': 'evaluations = CBMC proof obligations (assertions, overflow/bounds/pointer checks, cover witnesses, unwinding assertions) '
                    'decided by the SAT solver over ALL values of the symbolic inputs inside the stated bound, plus SMT queries of mir2smt; '
                    'distinct_nontrivial = harnesses that passed AND whose every kani::cover witness (the coincidence classes named in the property) '
                    'was SATISFIED, plus SMT obligations proved unsat; each harness is a distinct (clause x shape x scalar type) obligation',
            'obligations': queries, 'discharged': discharged,
            'harnesses_run': len(results), 'harnesses_passed': len(passed),
            'smt_obligations': len(smt_results), 'smt_proved': sum(1 for r in smt_results if r['status'] == 'pass'),
            'solver_seconds': round(sum((r['parsed']['solver_s'] or 0) for r in results) + sum(r.get('solver_s', 0) for r in smt_results), 1),
            'exhaustive': False,
            'checker_cmd': 'bin/check %s --tier %s  (z3 via python3-vt smt/obligations.py, cross-check: cvc5 --lang smt2 on the exported SMT-LIB; Kani: cargo kani --harness <name>)' % (pid, tier),
            'trusted_base': ['z3 4.x / cvc5 1.0', 'rustc nightly MIR dump (-Zunpretty=mir)', 'smt/mir2smt.py (validated against the native build on every run)', 'Kani 0.68 / CBMC 6.11 / CaDiCaL'],
            'samples': samples,
            'families': families,
            'smt': [{k: v for k, v in r.items() if k in ('name', 'statement', 'status', 'theory', 'functions', 'solver_s', 'solvers', 'paths', 'reason')} for r in smt_results],
            'not_run_in_this_tier': skipped,
            'traces_validated_against_impl': sum(len(r.get('replays', [])) for r in results),
            'known_findings_reproduced': [{'harness': r['harness'], 'finding': k['text'], 'input': describe_vals(r['cex_vals'])} for r, k in known_hits],
            'inconclusive': [{'name': r.get('harness', r.get('name')), 'status': r['status'], 'reason': r['reason']} for r in incon],
            'explanation': 'Bounded model checking of the compiled real code: every input inside the bound is decided by the solver; nothing is claimed outside the bounds listed per family.',
        },
        'assumptions': sorted(set(
            ['Kani 0.68 / CBMC 6.11 / CaDiCaL are sound for the compiled MIR (dev profile, debug assertions off, overflow checks on)',
             'bounds: see coverage.families[*].bound; inputs outside them are not covered']
            + [s for f in famidx.values() for s in f.get('stubs', [])])),
        'wall_s': round(wall, 1),
        'violations': len(violations),
    }
    path = os.path.join(VERIF, 'evidence', pid + '.json')
    json.dump(ev, open(path, 'w'), indent=1)


# --------------------------------------------------------------------------- E2 (mir2smt)

def smt_obligations(pid):
    p = os.path.join(VERIF, 'smt', 'obligations.py')
    if not os.path.exists(p):
        return []
    r = subprocess.run(['python3-vt', p, '--list', pid], stdout=subprocess.PIPE, text=True)
    return [l for l in r.stdout.split() if l]


def run_smt(pid, tier, seed, logdir):
    p = os.path.join(VERIF, 'smt', 'obligations.py')
    out = os.path.join(logdir, '_smt.json')
    lp = os.path.join(logdir, '_smt.log')
    cap = 600 if tier == 'quick' else 3000
    rc, w = run_proc(['python3-vt', p, '--run', pid, '--tier', tier, '--seed', str(seed), '--out', out], VERIF, lp, cap)
    if rc != 0 or not os.path.exists(out):
        return [{'name': 'mir2smt', 'status': 'inconclusive', 'reason': 'mir2smt failed rc=%s: %s' % (rc, open(lp, errors='replace').read()[-400:])}]
    return json.load(open(out))


# --------------------------------------------------------------------------- replay entry

def do_replay(pid, path):
    d = json.load(open(path))
    if d.get('engine') == 'mir2smt':
        p = os.path.join(VERIF, 'smt', 'obligations.py')
        return subprocess.call(['python3-vt', p, '--replay', path])
    rep = replay_native(d['harness'], d['vals'])
    for r in rep:
        log('%s: rc=%s %s' % (r['profile'], r['rc'], r['out']))
    return 1 if all(r['rc'] == 1 for r in rep) else (0 if all(r['rc'] == 0 for r in rep) else 2)
